# C39 - PacketTransmitter: credits, consecutive numbering, retire on LGOOD, retransmit after LBAD with delayed flag.
#
# DUT: luna.gateware.usb.usb3.link.transmitter.PacketTransmitter(buffer_count, ss_clock_frequency=100), enable = 1.
# (ss_clock_frequency only sizes the 5 ms PENDING_HP timer; at 100 Hz it is a one-bit counter.  The timer drives nothing
#  but the recovery_required output, which this check does not judge, so the scaling only keeps the state space finite.)
#
# Macro-step exploration; one action is one of
#   ("lc", cmd, k)   the partner sends a link command as real words (LCSTART + command word, 2 cycles):
#                    LGOOD: k = 0 the number of the oldest header it can acknowledge (or the advertisement, first),
#                           k = 1 that number + 1 (mismatch);   LCRD: k = 0 expected index, k = 1 index + 1 (mismatch);
#                    LBAD; LRTY
#   ("q", c)         the protocol layer offers header a/b (queue.valid is then held until queue.ready)
#   ("t", ready)     one cycle with source.ready = ready
#   ("rel",)         the receiver half has sent its LRTY: lrty_pending released (it is raised by the environment in the
#                    cycle after every retry_required strobe, as HeaderPacketReceiver does)
#   ("drain",)       lrty_pending released 3 cycles after it rose, source.ready held until every accepted header has been
#                    (re)transmitted
#
# Oracle (reference model written from USB 3.2 7.2.4.1; every word the DUT puts on its source is parsed):
#   * only header packets appear (HPSTART + 4 words, CRC-16 / CRC-5 valid, protocol words / hub depth / DF unchanged).
#   * a header that is not a retransmission is the oldest accepted-but-unsent one, is sent only while
#     (LCRDs received in order) - (new headers sent) > 0, and carries the next consecutive sequence number, counted from
#     the advertised number + 1; DL clear.
#   * an LGOOD retires the oldest unacknowledged header iff it carries that header's number; mismatching LGOOD / LCRD
#     change nothing.
#   * after an LBAD every transmitted-but-unretired header is sent again, oldest first, same number and contents, DL
#     set, before any new header.  A header whose HPSTART was presented no later than 3 cycles after the LBAD word is
#     still judged by the rules before the LBAD (it cannot be recalled) and is retransmitted with the others.
#   * liveness (drain): accepted headers are transmitted once credits allow, retransmissions are carried out.
from rtlmc.model import Design, Violation
from rtlmc.explore import Spec
from harness import _usb3hp as L

PROPERTY = "C39"
LEVEL_NOTE = ("Depth-bounded BFS of the real PacketTransmitter under partner link commands sent as real words (LGOOD / LCRD "
              "matching and mismatching, LBAD, LRTY), protocol-layer header offers, source.ready stalls and lrty_pending "
              "release timing; every transmitted word parsed and judged by a reference model.")

# protocol-layer headers (dw0, dw1, dw2, hub_depth, deferred); none is a data packet header (DW0[3:0] != 1000b)
TXC = ((0x00000280, 0x00010004, 0x00000000, 0, 0),
       (0xA5C3F024, 0x5A3C0FDB, 0x9E3779B1, 5, 1))
GRACE = 3


def configs(tier):
    if tier == "quick":
        return [dict(buffers=2, adv=7, depth=13, mism=1, name="b2-adv7"),
                dict(buffers=2, adv=2, depth=12, mism=0, name="b2-adv2"),
                dict(buffers=4, adv=7, depth=11, mism=0, name="b4-adv7"),
                dict(buffers=4, adv=5, depth=10, mism=1, name="b4-adv5")]
    return [dict(buffers=2, adv=7, depth=17, mism=1, name="b2-adv7"),
            dict(buffers=2, adv=2, depth=17, mism=0, name="b2-adv2"),
            dict(buffers=4, adv=7, depth=15, mism=0, name="b4-adv7"),
            dict(buffers=4, adv=5, depth=13, mism=1, name="b4-adv5")]


class TxRef:
    FIELDS = ("up", "credits", "next_seq", "lcrd_next", "unacked", "pending", "retx", "old_retx", "grace", "cur", "cur_old",
              "offering", "lrty", "mism", "sink_lc")      # sink_lc: an HPSTART was presented but not taken in the latest cycle
    __slots__ = FIELDS + ("n",)
    # up: advertisement received; unacked: ((seq, content, ok),..) completely transmitted, not retired, ok = a copy was sent
    # since the last LBAD; pending: contents accepted from the protocol layer, not yet transmitted; retx: headers still to
    # be retransmitted ((seq, content),..); cur: words of the header packet being transmitted so far

    def __init__(self, n, t=None):
        self.n = n
        if t is None: t = (False, 0, 0, 0, (), (), (), (), 0, (), False, None, 0, 0, 0)
        for k, v in zip(self.FIELDS, t): setattr(self, k, v)

    def freeze(self):
        return tuple(getattr(self, k) for k in self.FIELDS)


class TxSpec(Spec):

    def __init__(self, cfg, tier):
        super().__init__(cfg, tier)
        self.n_validate = 1 if tier == "quick" else 3      # each amaranth.sim replay costs seconds to set up
        self.n = cfg["buffers"]
        self.max_depth = cfg["depth"]
        self.time_budget = 400 if tier == "quick" else 840
        self.max_states = 1_500_000 if tier == "quick" else 6_000_000

    def build(self):
        from luna.gateware.usb.usb3.link.transmitter import PacketTransmitter
        d = PacketTransmitter(buffer_count=self.n, ss_clock_frequency=100)
        h = d.queue.header
        ins = dict(sink_valid=d.sink.valid, sink_data=d.sink.data, sink_ctrl=d.sink.ctrl, src_ready=d.source.ready,
                   enable=d.enable, usb_reset=d.usb_reset, lrty_pending=d.lrty_pending, q_valid=d.queue.valid,
                   q_dw0=h.dw0, q_dw1=h.dw1, q_dw2=h.dw2, q_crc16=h.crc16, q_seq=h.sequence_number, q_rsvd=h.dw3_reserved,
                   q_hub=h.hub_depth, q_dl=h.delayed, q_df=h.deferred, q_crc5=h.crc5)
        obs = dict(src_valid=d.source.valid, src_data=d.source.data, src_ctrl=d.source.ctrl, q_ready=d.queue.ready,
                   retry_required=d.retry_required, retry_received=d.retry_received, recovery_required=d.recovery_required,
                   link_command_received=d.link_command_received, bringup_complete=d.bringup_complete,
                   credits_available=d.credits_available, packets_to_send=d.packets_to_send)
        return Design(d, ins, obs, defaults=dict(sink_valid=1, src_ready=1, enable=1))

    def env0(self):
        return TxRef(self.n).freeze()

    def assumptions(self):
        return ["enable = 1 throughout; the PENDING_HP timer is scaled to one bit and recovery_required is not judged (a real link "
                "would leave U0 when it fires)",
                "the partner has buffer_count header buffers: unused credits + transmitted-but-unacknowledged headers never exceed "
                "buffer_count (a buffer's credit is returned only after the LGOOD of the header that filled it); it acknowledges (LGOOD) only headers it has completely "
                "received since its last LBAD, sends LBAD only while a completely transmitted header is unacknowledged and not "
                "again before the retransmission it asked for is complete; link commands are word aligned, two cycles each",
                "mismatching LGOOD_n / LCRD_x (at most cfg.mism per history) are explored as no-ops of the reference: nothing is "
                "retired / credited; a real link would go to Recovery",
                "protocol-layer headers are not data packet headers (no payload follows); queue.valid is held until queue.ready",
                "lrty_pending rises in the cycle after each retry_required strobe and stays until released",
                f"a header packet whose HPSTART is presented at most {GRACE} cycles after the LBAD word is judged by the pre-LBAD rules",
                "liveness is checked by the drain action: lrty_pending released after 3 cycles, 16 + 8 * (headers owed) cycles of source.ready"]

    # -- environment menu ----------------------------------------------------------------------------------------
    def actions(self, env):
        r = TxRef(self.n, env)
        acts = [("t", 1), ("t", 0), ("drain",)]
        if r.lrty: acts.append(("rel",))
        if r.offering is None:
            acts += [("q", 0), ("q", 1)]
        # partner link commands
        if not r.up:
            acts.append(("lc", "LGOOD", 0))
        else:
            if r.unacked and r.unacked[0][2]:
                acts.append(("lc", "LGOOD", 0))
                if r.mism < self.cfg["mism"]: acts.append(("lc", "LGOOD", 1))
            if r.unacked and not r.retx and not r.grace:
                acts.append(("lc", "LBAD", 0))
        if r.credits + len(r.unacked) < self.n:      # the partner has buffer_count buffers; unacknowledged headers hold one each
            acts.append(("lc", "LCRD", 0))
            if r.mism < self.cfg["mism"]: acts.append(("lc", "LCRD", 1))
        if self.cfg["mism"]: acts.append(("lc", "LRTY", 0))
        return acts

    # -- one clock cycle -----------------------------------------------------------------------------------------
    def cyc(self, cur, r, sink=L.IDLE, ready=1):
        kw = dict(sink_data=sink[0], sink_ctrl=sink[1], src_ready=ready, lrty_pending=r.lrty)
        if r.offering is not None:
            c = TXC[r.offering]
            kw.update(q_valid=1, q_dw0=c[0], q_dw1=c[1], q_dw2=c[2], q_hub=c[3], q_df=c[4], q_dl=0,
                      q_seq=5, q_crc16=0xBEEF, q_crc5=0x15, q_rsvd=0)      # link-layer fields are junk: the link fills them
        o = cur.step(**kw)
        if r.offering is not None and o.q_ready:
            r.pending = r.pending + (r.offering,)
            r.offering = None
            self.cover["accepted"] += 1
        if o.retry_required:
            r.lrty = 1
            self.cover["retry_required"] += 1
        if o.retry_received: self.cover["retry_received"] += 1
        if o.recovery_required: self.cover["recovery_required"] += 1
        if o.src_valid:
            w = (o.src_data, o.src_ctrl)
            if not r.cur and not r.cur_old and r.grace:
                r.cur_old = True                     # HPSTART presented within the grace window behind an LBAD
            if ready:
                i = len(r.cur)
                if (i == 0 and w != L.HPSTART) or (i > 0 and w[1] != 0):
                    raise Violation("tx:malformed-framing", dict(word=hex(w[0]), ctrl=w[1], position=i))
                r.cur = r.cur + (w[0],)
                if i == 4:
                    self.header_sent(r, r.cur[1:])
                    r.cur = (); r.cur_old = False
        if r.grace: r.grace -= 1
        r.sink_lc = int(bool(o.src_valid and not ready and not r.cur))      # an HPSTART is being presented but stalled
        return o

    def header_sent(self, r, ws):
        dw0, dw1, dw2, dw3 = ws
        p = L.parse_dw3(dw3)
        got = (dw0, dw1, dw2, p["hub_depth"], p["deferred"])
        shown = dict(words=[hex(x) for x in ws], seq=p["seq"], delayed=p["delayed"])
        if not p["crc5_ok"] or p["crc16"] != L.crc16(dw0, dw1, dw2):
            raise Violation("tx:bad-crc", shown)
        # in the shadow of an LBAD a header is judged by the rules before it - unless it already is the first retransmission
        shadow = r.cur_old and not (p["delayed"] and r.retx and (p["seq"], got) == (r.retx[0][0], TXC[r.retx[0][1]]))
        retx = () if shadow else r.retx
        if retx:
            seq, c = retx[0]
            if got != TXC[c] or p["seq"] != seq:
                if not p["delayed"] and r.pending and got == TXC[r.pending[0]]:
                    raise Violation("retry:new-header-before-retransmission", dict(shown, owed=[list(x) for x in retx]))
                raise Violation("retry:wrong-header", dict(shown, owed=[list(x) for x in retx]))
            if not p["delayed"]:
                raise Violation("retry:delayed-flag-missing", dict(shown, owed=[list(x) for x in retx]))
            r.retx = retx[1:]
            r.unacked = tuple((s, cc, True) if s == seq else (s, cc, ok) for s, cc, ok in r.unacked)
            self.cover["retransmitted"] += 1
            return
        # a new header
        if shadow and not p["delayed"] and any((p["seq"], c) == (s, cc) and got == TXC[cc] for s, cc, _ in r.unacked for c in (cc,)):
            raise Violation("retry:retransmission-without-delayed-flag",
                            dict(shown, unacknowledged=[list(x) for x in r.unacked],
                                 note="an unacknowledged header sent again right behind the LBAD, DL clear"))
        if not r.pending:
            raise Violation("tx:unrequested-header", shown)
        if r.credits <= 0:
            raise Violation("credit:sent-without-credit", dict(shown, credits=r.credits))
        if not r.up:
            raise Violation("seq:sent-before-advertisement", shown)
        c = r.pending[0]
        if got != TXC[c]:
            raise Violation("tx:wrong-header", dict(shown, expected=[hex(x) for x in TXC[c]]))
        if p["seq"] != r.next_seq:
            raise Violation("seq:not-consecutive", dict(shown, expected=r.next_seq))
        if p["delayed"]: self.cover["new-header-with-DL"] += 1      # allowed: DL also marks headers delayed behind a retry
        r.pending = r.pending[1:]
        r.credits -= 1
        r.next_seq = (r.next_seq + 1) & 7
        if shadow:
            # sent in the shadow of an LBAD: the partner ignores it, it has to be retransmitted with the others
            r.unacked = r.unacked + ((p["seq"], c, False),)
            r.retx = r.retx + ((p["seq"], c),)
            self.cover["sent-in-lbad-shadow"] += 1
        else:
            r.unacked = r.unacked + ((p["seq"], c, True),)
        self.cover["sent"] += 1

    # -- actions -------------------------------------------------------------------------------------------------
    def apply(self, cur, env, a):
        r = TxRef(self.n, env)
        k = a[0]
        if k == "t":
            self.cyc(cur, r, ready=a[1])
        elif k == "q":
            r.offering = a[1]
            self.cyc(cur, r)
        elif k == "rel":
            r.lrty = 0
            self.cyc(cur, r)
        elif k == "lc":
            self.link_command(cur, r, a[1], a[2])
        elif k == "drain":
            owed = len(r.pending) + len(r.retx) + len(r.old_retx) + 1
            cap = 16 + 8 * owed
            quiet = 0
            held = 0
            for _ in range(cap):
                if r.lrty:                           # the receiver half sends its LRTY: released after 3 cycles
                    held += 1
                    if held > 3: r.lrty = 0; held = 0
                o = self.cyc(cur, r)
                quiet = 0 if (o.src_valid or r.cur) else quiet + 1
                blocked = not r.up or r.credits == 0
                if quiet >= 4 and not r.lrty and not r.retx and not r.old_retx and (not r.pending or blocked): break
            if r.retx or r.old_retx:
                raise Violation("retry:retransmission-missing", dict(owed=[list(x) for x in (r.old_retx + r.retx)], cycles=cap))
            if r.pending and r.up and r.credits > 0:
                raise Violation("tx:header-not-sent", dict(pending=list(r.pending), credits=r.credits, cycles=cap))
            if r.offering is not None and r.up and r.credits > len(r.pending):
                raise Violation("tx:header-not-accepted", dict(credits=r.credits, cycles=cap))
        if len(r.unacked) == self.n: self.cover["all-buffers-unacknowledged"] += 1
        return r.freeze()

    def link_command(self, cur, r, name, k):
        n = self.n
        if name == "LGOOD":
            if not r.up: sub = self.cfg["adv"]
            else: sub = (r.unacked[0][0] + k) & 7
            words = L.link_command_words(L.LGOOD, sub)
        elif name == "LCRD":
            words = L.link_command_words(L.LCRD, (r.lcrd_next + k) % 4 if k else r.lcrd_next)
        elif name == "LBAD":
            words = L.link_command_words(L.LBAD)
        else:
            words = L.link_command_words(L.LRTY)
        for w in words: self.cyc(cur, r, sink=w)
        # reference update once the command word is on the wire
        if name == "LGOOD":
            if not r.up:
                r.up = True; r.next_seq = (sub + 1) & 7
                self.cover["advertised"] += 1
            elif k == 0:
                r.unacked = r.unacked[1:]
                self.cover["retired"] += 1
            else:
                r.mism += 1; self.cover["lgood-mismatch"] += 1
        elif name == "LCRD":
            if k == 0:
                r.credits += 1; r.lcrd_next = (r.lcrd_next + 1) % n
                self.cover["credit"] += 1
            else:
                r.mism += 1; self.cover["lcrd-mismatch"] += 1
        elif name == "LBAD":
            r.retx = tuple((s, c) for s, c, _ in r.unacked)
            r.unacked = tuple((s, c, False) for s, c, _ in r.unacked)
            r.grace = GRACE
            if r.cur or r.sink_lc: r.cur_old = True      # a header packet is on the wire / being presented right now
            self.cover["lbad"] += 1

    def goals(self):
        return ["advertised", "credit", "accepted", "sent", "retired", "lbad", "retransmitted", "retry_required",
                "all-buffers-unacknowledged"]


def make(cfg, tier):
    L.calibrate()
    return TxSpec(cfg, tier)
