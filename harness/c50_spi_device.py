# C50 - SPIDeviceInterface exchanges whole words for every word size.     Macro-step BFS (one SPI bit per step).
#
# Environment = a standard SPI master in the configured mode (CPOL/CPHA), SCK half-period h system cycles:
#   begin : CS inactive for GAP cycles (word_out for the first word presented), then CS active with SCK idle for h
#   word  : (first bit of a word) choose the word v the master sends and the word_out value to present for the
#           *next* word; word_out changes at the end of that first bit period, i.e. at least 3 cycles after the previous
#           word's last sample edge (after its word_complete in the class; the attribute doc says "latched in on next
#           word_complete") and it is then stable through this word's last sample edge.  (word_size 1: the value
#           present at a word's sample edge is expected back in the next word.)
#   bit   : one SCK period.  CPHA=0: [SCK idle, SDI=b] x h, [SCK active] x h.  CPHA=1: [SCK active, SDI=b] x h,
#           [SCK idle] x h.  The sample edge is the boundary between the two halves in both cases.
#           ("narrow" configs drive SDI=b only in the cycle before and the cycle after the sample edge, ~b elsewhere)
#           The two phases may have different lengths (configs "ha"/"hb", default both h); phases of ONE system cycle
#           are included ("fast" configs) - the class' edge detector (one register) still sees every edge then.
#   end   : (any bit position = CS abort; at a word boundary = normal end) SCK idle for h with CS active, CS inactive
#   bitend/wordend (configs with cs_offsets): one more SCK period during which CS is released after e = 0 .. 2h cycles,
#           i.e. at *every* cycle offset relative to both SCK edges: e = 0 same cycle as the first edge, e = h same
#           cycle as the sample edge (that edge then happened while deselected and does not count), e = h+1, h+2 one
#           and two cycles after the sample edge (the bit counts; if it was the word's last one the word must be
#           reported), e = 2h at the end of the period.  SCK finishes its period and returns to idle while deselected.
# Transactions carry up to `max_words` words; an unlimited number of transactions follow each other.
#
# Oracle (from the statement):
#   * after the word_size-th, 2*word_size-th, ... sample edge of a transaction exactly one word_complete strobe must
#     appear, at the latest in the cycle of the following word's last sample edge / before the next CS assertion (the
#     statement fixes no latency; reports stay in order and one per word), with word_in == the word sent (bits in the configured
#     order); a strobe at any other time, or a second one, is a violation; an aborted partial word is not reported;
#   * CPHA=1 (data changes on the leading edge): around every sample edge (last cycle before - only if the active phase
#     is >= 2 cycles, a registered output needs one cycle after the leading edge - and first cycle after) SDO
#     must be the next bit, MSB first, of the word presented on word_out (first word: presented while CS was
#     inactive; later words: presented during the whole preceding word).  For msb_first=False the statement still
#     says "MSB first" while the class shifts LSB first: both orders are admitted there (candidate set).
from rtlmc.model import Design, Violation
from rtlmc.explore import Spec

PROPERTY = "C50"
TECHNIQUE = "BFS over SPI-master macro steps (one SCK period per step, CS aborts at every bit), per-cycle monitor inside each step"
GAP = 3


def configs(tier):
    out = []
    def add(ws, cpol, cpha, msb=True, h=2, **kw):
        out.append(dict(word_size=ws, cpol=cpol, cpha=cpha, msb_first=msb, h=h, **kw))
    if tier == "quick":
        add(3, 0, 1, ha=1, hb=1); add(4, 1, 1, ha=2, hb=1, cs_offsets=True); add(3, 0, 0, ha=1, hb=2, msb=False)
        add(3, 0, 1, cs_offsets=True); add(2, 1, 0, h=3, cs_offsets=True); add(4, 0, 0, cs_offsets=True)
        add(3, 0, 0, h=3); add(4, 1, 1); add(5, 1, 0); add(5, 0, 1, msb=False, h=3)
        add(7, 1, 1, narrow=True); add(8, 0, 0, msb=False); add(8, 0, 1, h=3); add(12, 0, 1); add(12, 1, 0, h=3)
        add(16, 1, 1); add(16, 0, 0, narrow=True); add(6, 0, 1, cs_idles_high=True); add(2, 0, 1); add(1, 0, 0)
    else:
        for ws in (1, 2, 3, 4, 5, 6, 7, 8, 9, 12, 16, 24, 32):
            for cpol in (0, 1):
                for cpha in (0, 1):
                    i = ws + 2 * cpol + cpha
                    add(ws, cpol, cpha, msb=bool(i & 1), h=2 + (i // 2) % 2, narrow=bool((i // 4) & 1), max_words=3,
                        cs_offsets=(ws <= 8 or ws in (12, 16)))
        for ws in (3, 4, 5):
            add(ws, 0, 1, full=True, max_words=3, cs_offsets=(ws == 3)); add(ws, 1, 0, msb=False, h=3, full=True, max_words=3, cs_offsets=(ws == 3))
        add(7, 0, 1, cs_idles_high=True); add(10, 1, 0, msb=False, cs_idles_high=True, h=3)
        add(5, 0, 1, max_words=5); add(6, 0, 0, max_words=5)
        for ws in (2, 3, 4, 5, 8, 12):
            for cpol, cpha in ((0, 1), (1, 1), (0, 0), (1, 0)):
                for ha, hb in ((1, 1), (1, 2), (2, 1), (1, 3), (3, 1)):
                    if cpha == 0 and (ws > 5 or (ha, hb) in ((1, 3), (3, 1))): continue
                    i = ws + cpol + ha
                    add(ws, cpol, cpha, msb=bool(i & 1) or cpha == 1 and ws <= 4, ha=ha, hb=hb, narrow=bool(i & 2),
                        cs_offsets=(ws <= 4), max_words=3)
    return out


PAT_RX = "1101001110010110" * 2
PAT_TX = "1011000111010010" * 2


class SpiSpec(Spec):
    n_validate = 5

    def __init__(self, cfg, tier):
        super().__init__(cfg, tier)
        ws = self.ws = cfg["word_size"]
        self.cpol, self.cpha, self.msb, self.h = cfg["cpol"], cfg["cpha"], cfg["msb_first"], cfg["h"]
        self.ha, self.hb = cfg.get("ha", self.h), cfg.get("hb", self.h)      # phase before / after the sample edge
        self.hs = max(2, self.ha, self.hb)                                   # CS set-up and hold
        self.loose = True         # report deadline = the following word's last sample edge for every clock (see header)
        self.narrow = cfg.get("narrow", False)
        self.cs_offsets = bool(cfg.get("cs_offsets"))
        self.cs_on = 0 if cfg.get("cs_idles_high") else 1
        self.max_words = cfg.get("max_words", 3)
        # CS aborts leave arbitrary shifted garbage in the receive shift register; the closure over *repeated* aborts
        # is ~2^word_size states, so for wide words the number of mid-word aborts per history is bounded instead.
        if tier == "quick": dflt = -1 if ws <= 6 else 1
        else: dflt = -1 if ws <= 8 else (2 if ws <= 12 else 1)
        self.abort_budget = cfg.get("aborts", dflt)       # -1 = unlimited
        mask = (1 << ws) - 1
        a = int(PAT_RX[:ws], 2); t = int(PAT_TX[:ws], 2)
        if cfg.get("full") or ws <= 3:
            self.rx_vals = list(range(1 << ws))
        else:
            self.rx_vals = sorted({a, ~a & mask, 1, 1 << (ws - 1)})
        self.tx_vals = sorted({t, ~t & mask})
        self.time_budget = 600 if tier == "quick" else 3000     # safety net only; sized to finish in seconds
        self.max_states = 400_000 if tier == "quick" else 3_000_000
        self.idle_lvl = self.cpol
        self.act_lvl = 1 - self.cpol

    def build(self):
        from luna.gateware.interface.spi import SPIDeviceInterface
        c = self.cfg
        d = SPIDeviceInterface(word_size=self.ws, clock_polarity=self.cpol, clock_phase=self.cpha, msb_first=self.msb,
                               cs_idles_high=bool(c.get("cs_idles_high")))
        ins = dict(sck=d.spi.sck, sdi=d.spi.sdi, cs=d.spi.cs, word_out=d.word_out)
        obs = dict(word_in=d.word_in, word_complete=d.word_complete, sdo=d.spi.sdo)
        return Design(d, ins, obs, defaults=dict(sck=self.cpol, cs=1 - self.cs_on))

    # env = (active, k, j, v, txcur, wout, pending, orders, aborts)
    #   active  CS asserted;  k = words completed in this transaction;  j = bits of the current word already clocked
    #   v       word being sent by the master;  txcur = word the device must be returning during the current word
    #   wout    value currently presented on word_out
    #   pending word whose word_complete report is still outstanding (or -1)
    #   orders  admitted SDO bit orders ('m','l')
    #   aborts  mid-word aborts still allowed in this history (-1 = unlimited)
    def env0(self):
        return (0, 0, 0, 0, 0, 0, -1, ("m",) if self.msb else ("l", "m"), self.abort_budget)

    def actions(self, env):
        active, k, j = env[0], env[1], env[2]
        if not active:
            return [("begin", t) for t in self.tx_vals]
        acts = [("end",)] if (j == 0 or env[8] != 0) else []
        if j == 0:
            if k < self.max_words:
                acts += [("word", v, t) for v in self.rx_vals for t in self.tx_vals]
        else:
            acts.append(("bit",))
        if self.cs_offsets and k < self.max_words:
            for e in range(self.ha + self.hb + 1):
                counted = 1 if e > self.ha else 0
                if (j + counted) % self.ws != 0 and env[8] == 0: continue      # would be a mid-word abort, none left
                if j == 0:
                    acts += [("wordend", v, e) for v in (self.rx_vals[0], self.rx_vals[-1])]
                else:
                    acts.append(("bitend", e))
        return acts

    def assumptions(self):
        return ["mid-word CS aborts per history (bound): quick unlimited for word sizes <= 6, one beyond; thorough unlimited <= 8, two <= 12, one beyond",
                "SPI master in the device's configured mode; SCK phases of 1, 2 or 3 system cycles each (also asymmetric); minimum supported phase length = 1 system cycle (edge detector is one register); with a 1-cycle active phase SDO (registered) is only compared in the cycle of the sample edge itself",
                "CS is asserted with SCK idle, set-up (CS active to first SCK edge) >= max(2, phase) cycles, CS inactive gap >= 3 cycles",
                "CS release: >= 2 cycles after the end of a bit period, or (configs with cs_offsets) at every cycle offset inside an SCK period incl. the same cycle as either SCK edge; a sample edge in the cycle in which CS is already inactive does not count",
                "a word whose last sample edge happened while CS was active must be reported however soon CS is released afterwards (by the next CS assertion)",
                "SDI valid at least one system cycle either side of the sample edge ('narrow' configs drive the complement elsewhere)",
                "word_out changes only while CS is inactive or at the end of the first bit period of a word (>= 3 cycles after the previous word's last sample edge); the value present at a word's last sample edge is the one expected back in the following word",
                "word_complete must strobe at the latest in the cycle of the following word's last sample edge, or before the next CS assertion (>= 6 cycles after the last sample edge); no exact latency demanded",
                "msb_first=False: SDO order may be either MSB-first (statement) or LSB-first (configured order), consistently"]

    # -- one system cycle with the monitor
    def _cyc(self, cur, st, sck, sdi, cs):
        o = cur.step(sck=sck, sdi=sdi, cs=cs, word_out=st["wout"])
        if o.word_complete:
            if st["pending"] < 0:
                raise Violation("word-complete-spurious", dict(word_in=o.word_in, words_done=st["k"], bits_into_word=st["j"],
                                                               note="strobe with no completed, unreported word"))
            if o.word_in != st["pending"]:
                raise Violation("word-value", dict(expected=st["pending"], got=o.word_in, words_done=st["k"]))
            st["pending"] = -1
            self.cover["report"] += 1
            self.cover["report_word%d" % min(st["k"] + st.get("_closing", 0), 3)] += 1
        return o

    def _need_reported(self, st, when):
        if st["pending"] >= 0:
            raise Violation("word-not-reported", dict(word=st["pending"], words_done=st["k"], by=when))

    def _check_sdo(self, st, o, where):
        j, ws, tx = st["j"], self.ws, st["txcur"]
        ok = []
        for od in st["orders"]:
            exp = (tx >> (ws - 1 - j)) & 1 if od == "m" else (tx >> j) & 1
            if o.sdo == exp: ok.append(od)
        if not ok:
            raise Violation("sdo-bit", dict(word_presented=tx, bit_index=j, word_index=st["k"], got=o.sdo, where=where,
                                            orders_admitted=list(st["orders"])))
        st["orders"] = tuple(ok)
        self.cover["sdo_checked"] += 1
        if st["k"] >= 1: self.cover["sdo_checked_later_word"] += 1

    def _edge_cycle(self, cur, st, j, v, lvl, sdi, cs):
        """the cycle in which the device sees a counted sample edge (CS active): report bookkeeping around it"""
        late = None
        if st["pending"] >= 0:
            if not self.loose:
                self._need_reported(st, "next sample edge")       # raises
            elif j + 1 == self.ws:
                late = st["pending"]           # fast clock: may still be reported in this very cycle
        if j + 1 == self.ws and late is None:
            st["pending"] = v                  # completed by the edge the device sees in this cycle
            st["_closing"] = 1                 # (transient, cover bookkeeping: k is incremented at the end of the step)
        o = self._cyc(cur, st, lvl, sdi, cs)
        if late is not None:
            self._need_reported(st, "the following word's last sample edge")
            st["pending"] = v
            st["_closing"] = 1
        if j + 1 == self.ws:
            st["txnext"] = st["wout"]          # the value presented at the word's last sample edge
        return o

    def _bit(self, cur, st, new_wout=None):
        ws, ha, hb = self.ws, self.ha, self.hb
        j, v = st["j"], st["v"]
        b = (v >> (ws - 1 - j)) & 1 if self.msb else (v >> j) & 1
        lv_a, lv_b = (self.idle_lvl, self.act_lvl) if self.cpha == 0 else (self.act_lvl, self.idle_lvl)
        for i in range(ha):
            sdi = b if (not self.narrow or i == ha - 1) else 1 - b
            o = self._cyc(cur, st, lv_a, sdi, self.cs_on)
            if self.cpha == 1 and i == ha - 1 and ha >= 2: self._check_sdo(st, o, "last cycle before the sample edge")
        for i in range(hb):
            sdi = b if (not self.narrow or i == 0) else 1 - b
            if i == 0:
                o = self._edge_cycle(cur, st, j, v, lv_b, sdi, self.cs_on)
                if self.cpha == 1: self._check_sdo(st, o, "first cycle after the sample edge")
            else:
                self._cyc(cur, st, lv_b, sdi, self.cs_on)
        if new_wout is not None: st["wout"] = new_wout
        st["j"] = j + 1
        if st["j"] == ws:
            st["_closing"] = 0
            st["k"] += 1
            st["j"] = 0
            st["txcur"] = st.pop("txnext")
            self.cover["word_sent"] += 1
            if st["k"] >= 2: self.cover["second_word_sent"] += 1

    def _bit_release(self, cur, st, e):
        """one SCK period with CS active only during its first e cycles; ends the transaction"""
        ws, ha, hb = self.ws, self.ha, self.hb
        j, v = st["j"], st["v"]
        b = (v >> (ws - 1 - j)) & 1 if self.msb else (v >> j) & 1
        lv_a, lv_b = (self.idle_lvl, self.act_lvl) if self.cpha == 0 else (self.act_lvl, self.idle_lvl)
        counted = e > ha                        # CS still active in the cycle in which the device sees the sample edge
        for i in range(ha + hb):
            cs = self.cs_on if i < e else 1 - self.cs_on
            sdi = b if (not self.narrow or i in (ha - 1, ha)) else 1 - b
            if i == ha and counted:
                o = self._edge_cycle(cur, st, j, v, lv_b, sdi, cs)
            else:
                o = self._cyc(cur, st, lv_a if i < ha else lv_b, sdi, cs)
            if self.cpha == 1 and i < e:
                if i == ha - 1 and ha >= 2: self._check_sdo(st, o, "last cycle before the sample edge")
                elif i == ha: self._check_sdo(st, o, "first cycle after the sample edge")
        self._cyc(cur, st, self.idle_lvl, 0, 1 - self.cs_on)
        st.pop("txnext", None)
        newj = j + (1 if counted else 0)
        if newj == ws:
            st["_closing"] = 0
            st["k"] += 1
            self.cover["word_sent"] += 1
            if st["k"] >= 2: self.cover["second_word_sent"] += 1
            self.cover["release_%d_after_last_edge" % (e - ha)] += 1
        else:
            if newj:
                self.cover["abort_mid_word"] += 1
                if st["aborts"] > 0: st["aborts"] -= 1
            if e == ha: self.cover["release_with_sample_edge"] += 1
            if e == 0: self.cover["release_with_first_edge"] += 1
        st.update(active=0, k=0, j=0, v=0, txcur=0)

    def apply(self, cur, env, a):
        st = dict(zip(("active", "k", "j", "v", "txcur", "wout", "pending", "orders", "aborts"), env))
        kind = a[0]
        if kind == "wordend":
            st["v"] = a[1]
            self._bit_release(cur, st, a[2])
        elif kind == "bitend":
            self._bit_release(cur, st, a[1])
        elif kind == "begin":
            self._apply_begin(cur, st, a)
        else:
            self._apply_rest(cur, st, a)
        self.outcomes.add((kind, st["pending"] >= 0, st["orders"]))
        return tuple(st[n] for n in ("active", "k", "j", "v", "txcur", "wout", "pending", "orders", "aborts"))

    def _apply_begin(self, cur, st, a):
        kind = a[0]
        if kind == "begin":
            st["wout"] = a[1]
            for _ in range(GAP):
                self._cyc(cur, st, self.idle_lvl, 0, 1 - self.cs_on)
            self._need_reported(st, "next CS assertion")
            for _ in range(self.hs):
                self._cyc(cur, st, self.idle_lvl, 0, self.cs_on)
            st.update(active=1, k=0, j=0, txcur=st["wout"])

    def _apply_rest(self, cur, st, a):
        kind = a[0]
        if kind == "word":
            st["v"] = a[1]
            self._bit(cur, st, new_wout=a[2])
        elif kind == "bit":
            self._bit(cur, st)
        else:
            if st["j"]:
                self.cover["abort_mid_word"] += 1
                if st["aborts"] > 0: st["aborts"] -= 1
            for _ in range(self.hs):
                self._cyc(cur, st, self.idle_lvl, 0, self.cs_on)
            self._cyc(cur, st, self.idle_lvl, 0, 1 - self.cs_on)
            st.update(active=0, k=0, j=0, v=0, txcur=0)

    def goals(self):
        g = ["report", "word_sent", "second_word_sent", "report_word2", "report_word3", "abort_mid_word"] if self.ws > 1 else \
            ["report", "word_sent", "second_word_sent", "report_word2", "report_word3"]
        if self.cpha == 1: g += ["sdo_checked", "sdo_checked_later_word"]
        if self.cs_offsets:
            g += ["release_1_after_last_edge", "release_with_sample_edge", "release_with_first_edge"]
            if self.hb >= 2: g.append("release_2_after_last_edge")
        return g


def make(cfg, tier):
    return SpiSpec(cfg, tier)
