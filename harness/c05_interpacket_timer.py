# C05 - USBInterpacketTimer: inter-packet response timing matches the selected bus speed.
#        Per-cycle closure over (start strobe[s], speed).
#
# Oracle (from the statement + USB 2.0 7.1.18 / ULPI 1.1 fig. 18, *not* from the class' tables): let n be the number of
# clock edges since the edge that sampled the most recent `start` (or since reset release).  In every cycle
#     tx_allowed == (n == Tmin[speed]),  tx_timeout == (n == Tmax[speed]),  rx_timeout == (n == Trx[speed])
# with, in cycles of the domain clock (bit time = clock / bit rate: FS 12 Mbit/s, LS 1.5 Mbit/s):
#     HS @60 MHz : 1 / 24 / 736 bit times = 92          FS : 2 / 6.5 / 16 bit times       LS : 2 / 6.5 / 16 LS bit times
# Two conventions the statement leaves open are not imposed but *calibrated once*, on a lookahead fork from reset at
# full speed (the speed every configuration supports), and then demanded consistently for every speed, strobe and restart:
#   * whether the cycle that follows the start strobe counts as cycle 0 or cycle 1 (offset 0 / -1),
#   * how the non-integral 6.5 bit times are rounded to cycles (down / up).
# (A pruned candidate set would work too, but then a wrong low-speed count can be "explained" by the other convention
# and the blame lands on a later, correct observation; calibrating first keeps the reported rule accurate.)
# If the full-speed run matches neither convention the default (offset 0, round down) is used and the exploration
# reports the mismatch as a normal violation.
from rtlmc.model import Design, Violation
from rtlmc.explore import Spec
import math

PROPERTY = "C05"

SPEEDS = {"HIGH": 0, "FULL": 1, "LOW": 2}
SIGS = ("tx_allowed", "tx_timeout", "rx_timeout")


def reference_tables(clock):
    """{rounding: {speed: (Tmin, Tmax, Trx)}} in clock cycles, derived from bit times."""
    out = {}
    for rnd, f in (("down", math.floor), ("up", math.ceil)):
        t = {}
        for sp, rate in (("FULL", 12e6), ("LOW", 1.5e6)):
            cpb = clock / rate                      # cycles per bit
            if cpb < 1: continue
            t[sp] = (int(round(2 * cpb)), int(f(6.5 * cpb)), int(round(16 * cpb)))
        if clock == 60e6:
            t["HIGH"] = (1, 24, 736 // 8)           # one 60 MHz cycle / 24 cycles / 736 HS bit times, 8 bits per cycle
        out[rnd] = t
    return out


def configs(tier):
    c = [dict(clock=60e6, fs_only=False, speeds=["HIGH"], interfaces=1),
         dict(clock=60e6, fs_only=False, speeds=["FULL"], interfaces=1),
         dict(clock=60e6, fs_only=False, speeds=["LOW"], interfaces=1),
         dict(clock=60e6, fs_only=False, speeds=["HIGH", "FULL"], interfaces=2),     # speed may change while counting
         dict(clock=60e6, fs_only=False, speeds=["HIGH", "FULL", "LOW"], interfaces=1),
         dict(clock=12e6, fs_only=True, speeds=["FULL"], interfaces=1),
         dict(clock=60e6, fs_only=True, speeds=["FULL"], interfaces=2)]
    if tier != "quick":
        c += [dict(clock=60e6, fs_only=False, speeds=["HIGH", "FULL", "LOW"], interfaces=2),
              dict(clock=60e6, fs_only=False, speeds=["FULL", "LOW"], interfaces=1),
              dict(clock=12e6, fs_only=True, speeds=["FULL"], interfaces=3)]
    return c


class TimerSpec(Spec):
    n_validate = 6
    validate_max_cycles = 3000

    def __init__(self, cfg, tier):
        super().__init__(cfg, tier)
        self.time_budget = 150 if tier == "quick" else 800
        self.tables = reference_tables(cfg["clock"])
        self.speeds = cfg["speeds"]
        self.nif = cfg["interfaces"]
        tmax = max(max(self.tables["up"][s]) for s in self.speeds)
        self.nsat = tmax + 3                       # beyond this no strobe may ever appear again
        acts = []
        for sp in self.speeds:
            for st in range(1 << self.nif):
                acts.append((st, sp))
        self._acts = acts

    def build(self):
        from luna.gateware.usb.usb2.packet import USBInterpacketTimer, InterpacketTimerInterface
        d = USBInterpacketTimer(domain_clock=self.cfg["clock"], fs_only=self.cfg["fs_only"])
        ifs = [InterpacketTimerInterface() for _ in range(self.nif)]
        for i in ifs: d.add_interface(i)
        self._keep = ifs
        ins = dict(speed=d.speed)
        obs = {}
        for k, i in enumerate(ifs):
            ins[f"start{k}"] = i.start
            for s in SIGS: obs[f"{s}{k}"] = getattr(i, s)
        return Design(d, ins, obs, defaults=dict(speed=SPEEDS[self.speeds[0]]))

    def env0(self):
        return (0, 0, "down")

    def prologue(self, cur):
        """calibrate the two open conventions on a fork (the explored graph still starts at the reset state)"""
        probe = cur.fork()
        seen = {s: [] for s in SIGS}
        kw = dict(speed=SPEEDS["FULL"])
        for k in range(self.nif): kw[f"start{k}"] = 0
        horizon = max(self.tables["up"]["FULL"]) + 3
        for n in range(horizon):
            o = probe.step(**kw)
            for s in SIGS:
                if getattr(o, f"{s}0"): seen[s].append(n)
        for off in (0, -1):
            for rnd in ("down", "up"):
                T = self.tables[rnd]["FULL"]
                if all(seen[s] == [t + off] for s, t in zip(SIGS, T)):
                    return (0, off, rnd)
        return self.env0()

    def actions(self, env):
        return self._acts

    def label(self, a):
        return dict(start=a[0], speed=a[1])

    def assumptions(self):
        return ["speed is one of the USBSpeed values the configuration supports (fs_only: FULL only); 0b11 is never driven",
                "cycle-0 convention (strobe n or n+1 cycles after the start cycle) and the rounding of 6.5 bit times to whole cycles are open: whichever the full-speed run from reset exhibits is then required for all speeds, strobes and restarts",
                "every attached interface must see the same three strobes"]

    def apply(self, cur, env, a):
        n, off, rnd = env
        st, sp = a
        kw = dict(speed=SPEEDS[sp])
        for k in range(self.nif): kw[f"start{k}"] = (st >> k) & 1
        o = cur.step(**kw)
        got = tuple(getattr(o, f"{s}0") for s in SIGS)
        for k in range(1, self.nif):
            gk = tuple(getattr(o, f"{s}{k}") for s in SIGS)
            if gk != got:
                raise Violation("interfaces-disagree", dict(interface0=got, other=gk, index=k))
        T = self.tables[rnd][sp]
        exp = tuple(int(n == t + off) for t in T)
        if exp != got:
            i = [i for i in range(3) if exp[i] != got[i]][0]
            kind = "spurious" if got[i] else "missing"
            raise Violation(f"timing:{sp}:{SIGS[i]}-{kind}",
                            dict(cycles_since_start=n, speed=sp, expected_counts=dict(zip(SIGS, T)), convention=dict(offset=off, rounding=rnd),
                                 expected=dict(zip(SIGS, exp)), got=dict(zip(SIGS, got)), clock=self.cfg["clock"]))
        for i, s in enumerate(SIGS):
            if got[i]: self.cover[f"{s}:{sp}"] += 1
        if st and n < self.nsat and n > 0: self.cover["restart_while_counting"] += 1
        if n >= self.nsat: self.cover["saturated"] += 1
        self.outcomes.add((sp, got))
        n2 = 0 if st else min(n + 1, self.nsat)
        return (n2, off, rnd)

    def goals(self):
        return [f"{s}:{sp}" for sp in self.speeds for s in SIGS] + ["restart_while_counting", "saturated"]


def make(cfg, tier):
    return TimerSpec(cfg, tier)
