# C42 - LFPSDetector reports a pattern only for envelopes inside its timing windows; LFPSGenerator produces typical
#        bursts at the typical period while enabled.   (usb3/physical/lfps.py)
#
# Detector: the real LFPSDetector(pattern, ss_clk_frequency) for the library's own polling / ping / warm-reset patterns
# at scaled clock frequencies (windows of a few to tens of cycles; one ping configuration at 25 MHz keeps the real
# 1..4-cycle burst window and crosses its multi-million-cycle repeat window with C-side holds).  One action = one
# envelope segment (signalling present for d cycles / absent for g cycles), d and g from menus that straddle every window
# edge by -2..+2 cycles, plus 1..2-cycle glitches, plus over-long signalling whose excess over one / two window lengths
# lies again inside the window, just beyond it, and far beyond, and pauses just / twice / far beyond the repeat window; BFS over all segment sequences up to a depth of 3-5 bursts.
#
# Oracle (from the statement; windows taken from the pattern object's documented t_min/t_max, exact rational arithmetic):
#   a signal seen high at d consecutive clock edges lasted between d-1 and d+1 clock periods, so a burst of d cycles is
#   "within the window" iff d+1 > f*t_min and d-1 < f*t_max (same for start-to-start repeat periods) - no further slack.
#   detect in cycle t is justified iff for some latency L in 0..LMAX (two-flop synchroniser + edge detector) the envelope
#   as of cycle t-L satisfies:
#     periodic pattern : the last two completed bursts are within the burst window, the period between their starts is
#                        within the repeat window, and the period running since the last burst's start is (if the next
#                        burst has begun) within the repeat window / (if not) not yet beyond it; a burst in progress is
#                        not yet longer than the burst window.  (Both reporting conventions - at the end of the second
#                        burst or at the start of the third - are admitted.)
#     one-shot pattern : cycle t-L is the first cycle after a burst within the burst window.
#   Any other detect is a violation "detect-unjustified:<first missing requirement>".
#
# LFPSTransceiver (the class that wires three detectors and the polling generator to one clock frequency) is driven the
# same way at non-default frequencies: envelope BFS judged on polling_detected with the windows computed for that
# frequency (ping_detected / reset_detected must stay silent), and send_polling stretches judged by the generator monitor.
#
# Generator: per-cycle closure over generate in {0,1} on LFPSGenerator(polling pattern, f).  Monitor: every burst
# (run of send_signaling) that starts and ends while generate has been held is typical long, consecutive burst starts
# under a held generate are one typical period apart (tolerance: f*t_typ rounded to whole cycles either way +-2 cycles -
# the statement fixes no cycle-exact convention), and a held generate produces a burst within one period.
from fractions import Fraction as F
from math import floor, ceil
from rtlmc.model import Design, Violation
from rtlmc.explore import Spec

PROPERTY = "C42"
TECHNIQUE = "BFS over envelope segments (detector) / per-cycle closure (generator) on the real netlist; window oracle in exact arithmetic"
LMAX = 4          # detector: admitted report latency (cycles)
TOLG = 2          # generator: admitted deviation from the typical value (cycles)


def _pattern(name):
    from luna.gateware.usb.usb3.physical import lfps
    return {"polling": lfps._PollingLFPS, "ping": lfps._PingLFPS, "reset": lfps._ResetLFPS}[name]


def configs(tier):
    q = [dict(kind="detector", pattern="polling", f=10e6, depth=8, menu="edges"),
         dict(kind="detector", pattern="polling", f=5e6, depth=8, menu="edges"),
         dict(kind="detector", pattern="polling", f=12.5e6, depth=8, menu="edges"),
         dict(kind="detector", pattern="ping", f=250.0, depth=8, menu="edges"),
         dict(kind="detector", pattern="reset", f=500.0, depth=6, menu="edges"),
         dict(kind="detector", pattern="reset", f=250.0, depth=6, menu="edges"),
         dict(kind="generator", pattern="polling", f=10e6),
         dict(kind="generator", pattern="polling", f=5e6),
         dict(kind="generator", pattern="polling", f=12.5e6),
         dict(kind="generator", pattern="polling", f=25e6),
         dict(kind="transceiver-detect", pattern="polling", f=10e6, depth=7, menu="edges"),
         dict(kind="transceiver-generate", pattern="polling", f=10e6)]
    if tier == "quick":
        return q
    t = [dict(kind="detector", pattern="polling", f=10e6, depth=9, menu="wide"),
         dict(kind="detector", pattern="polling", f=5e6, depth=9, menu="wide"),
         dict(kind="detector", pattern="polling", f=12.5e6, depth=9, menu="wide"),
         dict(kind="detector", pattern="polling", f=3.3e6, depth=10, menu="wide"),
         dict(kind="detector", pattern="polling", f=25e6, depth=9, menu="edges"),
         dict(kind="detector", pattern="ping", f=250.0, depth=10, menu="wide"),
         dict(kind="detector", pattern="ping", f=1000.0, depth=9, menu="edges"),
         dict(kind="detector", pattern="ping", f=25e6, depth=6, menu="few"),
         dict(kind="detector", pattern="reset", f=500.0, depth=6, menu="wide"),
         dict(kind="detector", pattern="reset", f=250.0, depth=6, menu="wide"),
         dict(kind="detector", pattern="reset", f=1000.0, depth=6, menu="edges"),
         dict(kind="generator", pattern="polling", f=10e6),
         dict(kind="generator", pattern="polling", f=5e6),
         dict(kind="generator", pattern="polling", f=12.5e6),
         dict(kind="generator", pattern="polling", f=3.3e6),
         dict(kind="generator", pattern="polling", f=25e6),
         dict(kind="generator", pattern="polling", f=125e6),
         dict(kind="transceiver-detect", pattern="polling", f=10e6, depth=8, menu="edges"),
         dict(kind="transceiver-detect", pattern="polling", f=25e6, depth=8, menu="edges"),
         dict(kind="transceiver-detect", pattern="polling", f=125e6, depth=7, menu="edges"),
         dict(kind="transceiver-generate", pattern="polling", f=10e6),
         dict(kind="transceiver-generate", pattern="polling", f=25e6)]
    return t


def window_cycles(f, tm):
    """(first, last) cycle count that may belong to the window [t_min, t_max] when sampled at f."""
    lo = F(repr(float(f))) * F(repr(tm.t_min))
    hi = F(repr(float(f))) * F(repr(tm.t_max))
    first = max(1, floor(lo - 1) + 1)          # smallest d with d + 1 > lo
    last = ceil(hi + 1) - 1                    # largest d with d - 1 < hi
    return first, last


class DetectorSpec(Spec):
    n_validate = 6
    validate_max_cycles = 4000
    rule_prefix = "detect-unjustified:"
    extra_D = ()          # further burst lengths / periods offered (subclasses)
    extra_P = ()

    def _others(self, obs, segs, level):
        """hook: judge further outputs of the DUT in a cycle (segs already include that cycle)"""

    def __init__(self, cfg, tier):
        super().__init__(cfg, tier)
        self.time_budget = 300 if tier == "quick" else 3000
        self.max_states = 4_000_000
        self.max_depth = cfg["depth"]
        pat = _pattern(cfg["pattern"])
        f = cfg["f"]
        self.periodic = pat.repeat is not None
        self.a, self.b = window_cycles(f, pat.burst)
        if self.periodic:
            self.A, self.B = window_cycles(f, pat.repeat)
        else:
            self.A = self.B = None
        a, b, A, B = self.a, self.b, self.A, self.B
        menu = cfg["menu"]
        mid = (a + b) // 2
        if menu == "few":
            D = {a, b, b + 1}
        elif menu == "edges":
            D = {a - 1, a, mid, b, b + 1}
        else:
            D = {1, a - 2, a - 1, a, a + 1, mid, b - 1, b, b + 1, b + 2}
        # over-long signalling of every length class: excess over the window again inside the window (after one and after
        # two window lengths - what a detector that re-arms on the level instead of the edge would take for a burst),
        # just beyond that, and far beyond
        if menu == "few":
            O = {b + 1 + a, 2 * b + 1}
        elif menu == "edges":
            O = {b + 1 + a, b + 1 + mid, 2 * b + 1, 2 * (b + 1) + mid, 6 * b + 5}
        else:
            O = {b + a, b + 1 + a, b + 1 + mid, 2 * b + 1, 2 * b + 2, 2 * (b + 1) + a, 2 * (b + 1) + mid, 3 * b + 2,
                 3 * (b + 1) + mid, 6 * b + 5}
        self.over = min(O)
        D |= O
        D |= set(self.extra_D)
        self.D = sorted(d for d in D if d >= 1)
        if self.periodic:
            midp = (A + B) // 2
            if menu == "few":
                P = {A - 1, A, B, B + 1}
            elif menu == "edges":
                P = {A - 1, A, midp, B, B + 1}
            else:
                P = {A - 2, A - 1, A, A + 1, midp, B - 1, B, B + 1, B + 2}
            # pauses beyond the repeat window: just beyond (+2: a detector may notice the time-out one cycle late), about
            # two windows, far beyond - "good iteration, over-long pause, good iteration" must not be reported
            P |= {B + 2, 2 * B + 5} if menu != "wide" else {B + 2, B + 3, 2 * B + 5, 4 * B + 3}
            P |= set(self.extra_P)
            self.P = sorted(P)
            self.G = [1] if menu != "wide" else [1, 2]           # glitch gaps
            # gaps that do not depend on the length of the preceding burst (a mid-window period after a mid-window burst...)
            self.G += [g for g in ({midp - mid} if menu != "wide" else {A - a, midp - mid, B - b}) if g >= 1]
            self.caplo = B + LMAX + 3
        else:
            self.P = []
            self.G = [1, 3, LMAX + 2] if menu != "wide" else [1, 2, 3, LMAX + 2, b + 3]
            self.caplo = max(self.G) + 1
        self.caphi = b + LMAX + 3          # (only for the canonical form; anything longer is equally out of the window)

    def build(self):
        from luna.gateware.usb.usb3.physical.lfps import LFPSDetector
        d = LFPSDetector(_pattern(self.cfg["pattern"]), self.cfg["f"])
        return Design(d, dict(signaling_received=d.signaling_received), dict(detect=d.detect))

    def assumptions(self):
        return ["signaling_received changes synchronously to the ss clock (the class' own two-flop synchroniser is part of the DUT); before the first cycle the line has been quiet",
                "a level seen at d consecutive clock edges is taken to have lasted between d-1 and d+1 clock periods; windows are the pattern object's t_min/t_max",
                "detect may lag the envelope by 0..%d cycles" % LMAX,
                "bound: envelopes of up to `depth` segments with durations from menus straddling every window edge by -2..+2 cycles (quick: -1..+1), mid-window values and 1-2 cycle glitches"]

    # env = (next_level, segs) ; segs = tuple of segment lengths, alternating, newest last; the newest has level 1-next_level
    def env0(self):
        return (1, (self.caplo,))          # the line has been quiet for long

    def actions(self, env):
        nxt, segs = env
        if nxt == 1:
            return [("hi", d) for d in self.D]
        acts = []
        d_last = segs[-1]
        gs = set(self.G)
        for p in self.P:
            if p - d_last >= 1: gs.add(p - d_last)
        return [("lo", g) for g in sorted(gs)]

    def label(self, a):
        return "%s for %d cycles" % ("signalling" if a[0] == "hi" else "quiet", a[1])

    # ---- oracle helpers (segs: list of lengths, alternating levels, newest last; `level` = level of the newest)
    def okB(self, d): return self.a <= d <= self.b
    def okP(self, p): return self.A <= p <= self.B

    def reasons(self, segs, level):
        """requirements missing for a report in the last cycle of `segs` (empty list = justified)."""
        n = len(segs)
        r = []
        if not self.periodic:
            if level != 0: return ["burst-not-finished"]
            if n < 2: return ["no-burst"]
            if segs[-1] != 1: r.append("not-at-burst-end")
            d = segs[-2]
            if d < self.a: r.append("burst-too-short")
            elif d > self.b: r.append("burst-too-long")
            return r
        if level == 1:
            if n < 5: return ["too-few-bursts"]
            c, g2, d2, g1, d1 = segs[-1], segs[-2], segs[-3], segs[-4], segs[-5]
            if c > self.b: r.append("burst-too-long")
            ps = [d1 + g1, d2 + g2]
        else:
            if n < 4: return ["too-few-bursts"]
            g2, d2, g1, d1 = segs[-1], segs[-2], segs[-3], segs[-4]
            ps = [d1 + g1]
            if d2 + g2 > self.B: r.append("period-too-long")
        for d in (d1, d2):
            if d < self.a: r.append("burst-too-short")
            elif d > self.b: r.append("burst-too-long")
        for p in ps:
            if p < self.A: r.append("period-too-short")
            elif p > self.B: r.append("period-too-long")
        return r

    ORDER = ["too-few-bursts", "no-burst", "burst-too-short", "burst-too-long", "period-too-short", "period-too-long",
             "burst-not-finished", "not-at-burst-end"]

    def check_detect(self, segs, level):
        """`segs` includes the current cycle, in which detect is high."""
        best = None
        for L in range(LMAX + 1):
            s = list(segs); lv = level; k = L
            while k > 0 and s:
                if s[-1] > k: s[-1] -= k; k = 0
                else: k -= s[-1]; s.pop(); lv ^= 1
            rs = self.reasons(s, lv) if s else ["too-few-bursts" if self.periodic else "no-burst"]
            if not rs: return
            if best is None or len(rs) < len(best): best = rs
        first = sorted(best, key=self.ORDER.index)[0]
        raise Violation(self.rule_prefix + first, dict(missing=best, recent_segment_lengths=list(segs[-6:]),
                        newest_segment_is="signalling" if level else "quiet",
                        burst_window_cycles=(self.a, self.b), repeat_window_cycles=(self.A, self.B)))

    def apply(self, cur, env, act):
        nxt, segs = env
        level = 1 if act[0] == "hi" else 0
        assert level == nxt
        segs = list(segs)
        segs.append(0)
        remaining = act[1]
        while remaining > 0:
            c, first, last = cur.hold(remaining, signaling_received=level)
            same = (tuple(last) == tuple(first))
            k = c if same else c - 1
            if any(first):
                for _ in range(k):
                    segs[-1] += 1
                    if first.detect:
                        self.cover["detect"] += 1
                        self.check_detect(segs, level)
                    self._others(first, segs, level)
            else:
                segs[-1] += k
            if not same:
                segs[-1] += 1
                if last.detect:
                    self.cover["detect"] += 1
                    self.check_detect(segs, level)
                self._others(last, segs, level)
            remaining -= c
        # classification cover (vacuity: accepted and rejected envelopes were both offered)
        if level == 1:
            d = segs[-1]
            self.cover["burst_ok" if self.okB(d) else ("burst_short" if d < self.a else "burst_long")] += 1
            if d >= self.over: self.cover["burst_overlong_tail_in_window"] += 1
        elif self.periodic and len(segs) >= 3:
            p = segs[-1] + segs[-2]
            self.cover["period_ok" if self.okP(p) else ("period_short" if p < self.A else "period_long")] += 1
        return (1 - level, tuple(self.canon_segs(segs, level)))

    def canon_segs(self, segs, level):
        """cap lengths; replace every completed (burst, gap) pair that the latency window can no longer reach by a
        representative of its class (burst short/ok/long x period short/ok/long); keep the newest 9 segments."""
        n = len(segs)
        out = [min(v, self.caphi if (level ^ ((n - 1 - i) & 1)) else self.caplo) for i, v in enumerate(segs)]
        if self.periodic:
            after = 0                     # total length of the segments after index i+1
            i = n - 1
            # find the newest burst index that has a following gap
            while i >= 0:
                lv = level ^ ((n - 1 - i) & 1)
                if lv == 1 and i + 1 < n:
                    tail = sum(out[i + 2:])
                    if i + 2 < n and tail > LMAX:
                        d, g = out[i], out[i + 1]
                        dr = (self.a - 1 if d < self.a else (self.a if d <= self.b else self.b + 1))
                        p = d + g
                        pr = (self.A - 1 if p < self.A else (self.A if p <= self.B else self.B + 1))
                        if pr - dr >= 1:
                            out[i], out[i + 1] = dr, pr - dr
                i -= 1
        return out[-9:]

    def goals(self):
        g = ["detect", "burst_ok", "burst_short", "burst_long", "burst_overlong_tail_in_window"]
        if self.periodic: g += ["period_ok", "period_short", "period_long"]
        if self.a == 1: g.remove("burst_short")            # no burst can be shorter than one cycle
        return g


class GeneratorSpec(Spec):
    n_validate = 4
    validate_max_cycles = 6000

    def __init__(self, cfg, tier):
        super().__init__(cfg, tier)
        self.time_budget = 300 if tier == "quick" else 3000
        pat = _pattern(cfg["pattern"])
        f = F(repr(float(cfg["f"])))
        bt = f * F(repr(pat.burst.t_typ)); pt = f * F(repr(pat.repeat.t_typ))
        # admitted: the typical value rounded to whole cycles either way, +-TOLG cycles
        self.bmin, self.bmax = floor(bt) - TOLG, ceil(bt) + TOLG
        self.pmin, self.pmax = floor(pt) - TOLG, ceil(pt) + TOLG

    def build(self):
        from luna.gateware.usb.usb3.physical.lfps import LFPSGenerator
        d = LFPSGenerator(_pattern(self.cfg["pattern"]), self.cfg["f"])
        return Design(d, dict(generate=d.generate),
                      dict(send_signaling=d.send_signaling, drive_electrical_idle=d.drive_electrical_idle, completed=d.completed))

    def assumptions(self):
        return ["burst length and period are accepted within [floor(f*t_typ)-%d, ceil(f*t_typ)+%d] cycles: the statement fixes no cycle-exact convention (the class rounds f*t_typ up in floating point and spends one idle cycle between periods; the library's own test accepts 10%%)" % (TOLG, TOLG),
                "only bursts that start and end while generate has been held continuously are measured; a held generate must start a burst within one typical period (+tolerance)"]

    # env = (held, blen, bvalid, since, svalid)
    #   held   cycles generate has been continuously 1 so far (capped)       blen  length of the burst in progress (0 = none)
    #   bvalid the burst in progress started under a held generate            since cycles since the last burst start (capped)
    #   svalid generate has been held ever since that start
    def env0(self):
        return (0, 0, 0, 0, 0)

    def actions(self, env):
        return (0, 1)

    def apply(self, cur, env, gen):
        held, blen, bvalid, since, svalid = env
        o = cur.step(generate=gen)
        cap = self.pmax + 3
        info = dict(burst_cycles_admitted=(self.bmin, self.bmax), period_cycles_admitted=(self.pmin, self.pmax))
        sig = o.send_signaling
        if sig:
            if blen == 0:
                # a burst starts in this cycle
                if svalid and gen:
                    if not self.pmin <= since <= self.pmax:
                        raise Violation("generator-period-wrong", dict(info, period_cycles=since))
                    self.cover["period_measured"] += 1
                blen, bvalid = 1, int(gen and held >= 1)
                since, svalid = 0, int(gen and held >= 1)
                self.cover["burst_started"] += 1
            else:
                blen += 1
                if bvalid and blen > self.bmax:
                    raise Violation("generator-burst-too-long", dict(info, burst_cycles_so_far=blen))
                if blen > cap: blen = cap
        else:
            if blen:
                if bvalid and gen and blen < self.bmin:
                    raise Violation("generator-burst-too-short", dict(info, burst_cycles=blen))
                if bvalid: self.cover["burst_measured"] += 1
                blen = 0; bvalid = 0
        if not gen:
            bvalid = 0; svalid = 0; held = 0
        else:
            held = min(held + 1, cap)
            if blen == 0 and held > self.pmax + 2 and (not svalid or since > self.pmax):
                raise Violation("generator-no-burst-while-enabled", dict(info, cycles_generate_held=held, cycles_since_last_burst_start=since))
        since = min(since + 1, cap)
        if gen and not sig: self.cover["enabled_quiet"] += 1
        self.outcomes.add((sig, o.drive_electrical_idle, o.completed))
        return (held, blen, bvalid, since, svalid)

    def goals(self):
        return ["burst_started", "burst_measured", "period_measured", "enabled_quiet"]


class TransceiverDetectSpec(DetectorSpec):
    """DUT = the real LFPSTransceiver(ss_clk_freq=f): same envelope alphabet and window oracle, computed for f, on its
    polling_detected output; additionally envelopes that the polling windows of the class' *default* clock (125 MHz) would
    accept (a sub-block built without the frequency), and ping_detected / reset_detected, whose windows at f (repeat
    period / burst of >= hundreds of thousands of cycles) no offered envelope comes near: any report there is unjustified."""
    rule_prefix = "transceiver-polling_detected-unjustified:"

    def __init__(self, cfg, tier):
        pat = _pattern("polling")
        a5, b5 = window_cycles(125e6, pat.burst)
        A5, B5 = window_cycles(125e6, pat.repeat)
        if cfg["f"] != 125e6:
            self.extra_D = ((a5 + b5) // 2,)
            self.extra_P = ((A5 + B5) // 2,)
        super().__init__(cfg, tier)
        f = cfg["f"]
        longest = max(max(self.D), max(self.P)) + 10
        self.others = []
        for name in ("ping", "reset"):
            op = _pattern(name)
            w = window_cycles(f, op.repeat) if op.repeat is not None else window_cycles(f, op.burst)
            assert w[0] > 4 * longest, (name, w, longest)        # far out of reach of every offered envelope
            self.others.append((name + "_detected", "repeat period" if op.repeat is not None else "burst", w))

    def build(self):
        from luna.gateware.usb.usb3.physical.lfps import LFPSTransceiver
        d = LFPSTransceiver(ss_clk_freq=self.cfg["f"])
        return Design(d, dict(signaling_received=d.signaling_received, send_polling=d.send_polling),
                      dict(detect=d.polling_detected, ping_detected=d.ping_detected, reset_detected=d.reset_detected))

    def assumptions(self):
        return super().assumptions() + ["LFPSTransceiver: send_polling is held low; ping_detected / reset_detected must stay low because no offered envelope comes within a factor 4 of their repeat / burst windows at this clock"]

    def _others(self, obs, segs, level):
        for name, what, w in self.others:
            if getattr(obs, name):
                raise Violation("transceiver-%s-unjustified" % name,
                                dict(recent_segment_lengths=list(segs[-6:]), window=what, window_cycles=w))


class TransceiverGenerateSpec(GeneratorSpec):
    """DUT = LFPSTransceiver(ss_clk_freq=f), send_polling -> send_signaling / drive_electrical_idle, same monitor as the
    generator.  The receivers' free-running counters keep the state from repeating, so instead of a per-cycle closure the
    actions are stretches of send_polling held high / low from a small menu, to a fixed depth."""
    n_validate = 3

    def __init__(self, cfg, tier):
        super().__init__(cfg, tier)
        self.max_depth = 5 if tier == "quick" else 6
        p = self.pmax
        self.on = [1, 3, self.bmax + 2, p + 5, 2 * p + 7]
        self.off = [1, 2, p]

    def build(self):
        from luna.gateware.usb.usb3.physical.lfps import LFPSTransceiver
        d = LFPSTransceiver(ss_clk_freq=self.cfg["f"])
        return Design(d, dict(generate=d.send_polling, signaling_received=d.signaling_received),
                      dict(send_signaling=d.send_signaling, drive_electrical_idle=d.drive_electrical_idle, completed=d.cycles_sent))

    def env0(self):
        return (1, super().env0())

    def actions(self, env):
        return [("on", n) for n in self.on] if env[0] else [("off", n) for n in self.off]

    def label(self, a):
        return "send_polling %s for %d cycles" % (a[0], a[1])

    def apply(self, cur, env, act):
        nxt, mon = env
        gen = 1 if act[0] == "on" else 0
        for _ in range(act[1]):
            mon = GeneratorSpec.apply(self, cur, mon, gen)
        return (1 - nxt, mon)


def make(cfg, tier):
    k = cfg["kind"]
    if k == "detector": return DetectorSpec(cfg, tier)
    if k == "generator": return GeneratorSpec(cfg, tier)
    if k == "transceiver-detect": return TransceiverDetectSpec(cfg, tier)
    return TransceiverGenerateSpec(cfg, tier)
