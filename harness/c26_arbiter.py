# C26 - StreamArbiter / HeaderQueueArbiter forward whole bursts without loss.   Per-cycle closure over every
# combination of sink valid/first/last/payload and source.ready (no producer-side restriction at all).
#
# Oracle: a boring reference arbiter written from the statement: one selected input `sel`;
#   * the source shows the selected input (valid, and payload/first/last whenever valid),
#   * ready is passed to the selected input and to nobody else,
#   * the selection is kept while the selected input holds valid, and moves to the highest-priority (= first added)
#     waiting input once the selected one is idle,
#   * idle <=> no input offers data.
# The statement does not say whether the new selection becomes effective in the cycle in which the old input is seen
# idle (combinational hand-over) or with the next clock edge (registered hand-over), which input is selected out of
# reset, or where the selection parks while nobody offers data, so the reference is a *set* of candidates
# (convention, sel, why-selected) pruned by what is observed; a violation is an observation no candidate explains.
# When the DUT still behaves like a well-formed arbiter that merely selected another input, the rule says which clause
# it broke (switched-while-valid-held / not-highest-priority-waiting); otherwise it names the broken connection.
# Independently of any convention, every cycle is also checked for "accepted exactly once": the set of inputs that
# see valid&ready must be exactly the one word the source hands over in that cycle, unmodified.
from rtlmc.model import Design, Violation
from rtlmc.explore import Spec

PROPERTY = "C26"
TECHNIQUE = "per-cycle closure, candidate-set reference arbiter"

# (payload, first, last) tags used where the full 5-bit per-sink alphabet would be too large
TAGS4 = [(0x00, 0, 0), (0x5A, 1, 0), (0xA5, 0, 1), (0xFF, 1, 1)]
TAGS3 = TAGS4[1:]
PAYLOADS = [0x00, 0x5A, 0xA5, 0xFF]

# two header values that differ in every field of the 128-bit header packet, plus zero
HANDOVER_SLACK = 3       # cycles a registered arbiter may take to move on from an idle input to a waiting one

HDR_VALUES = [0, 0xA5A5A5A5_5A5A5A5A_C3C3C3C3_3C3C3C3C, (1 << 128) - 1 - 0x0F0F0F0F_F0F0F0F0_12345678_9ABCDEF0]


def configs(tier):
    S = lambda n, alphabet: dict(kind="stream", n=n, alphabet=alphabet)
    if tier == "quick":
        return [S(1, "full"), S(2, "full"), S(3, "tags"), S(4, "tags3"),
                dict(kind="header", n=2), dict(kind="header", n=3), dict(kind="mux", n=3)]
    return [S(1, "full"), S(2, "full"), S(3, "full"), S(4, "tags"), S(4, "mid"), S(5, "tags3"),
            dict(kind="header", n=2), dict(kind="header", n=3), dict(kind="header", n=4),
            dict(kind="mux", n=2), dict(kind="mux", n=4)]


def _header_fields():
    from luna.gateware.usb.usb3.link.header import HeaderPacket
    out = []; pos = 0
    for name, width in HeaderPacket.get_layout():
        out.append((name, pos, width)); pos += width
    return out, pos


class ArbiterSpec(Spec):
    n_validate = 8

    def __init__(self, cfg, tier):
        super().__init__(cfg, tier)
        self.n = n = cfg["n"]
        self.kind = cfg["kind"]
        self.time_budget = 150 if tier == "quick" else 850       # a cap, not a target
        # per-sink alphabet: list of (valid, word) where word is hashable and comparable with the source observation
        if self.kind == "header":
            per = [(v, h) for v in (0, 1) for h in range(len(HDR_VALUES))]
        elif cfg["alphabet"] == "full":      # 4 payloads x first x last
            per = [(v, (p, f, l)) for v in (0, 1) for p in PAYLOADS for f in (0, 1) for l in (0, 1)]
        elif cfg["alphabet"] == "mid":       # 2 payloads x first x last
            per = [(v, (p, f, l)) for v in (0, 1) for p in PAYLOADS[1:3] for f in (0, 1) for l in (0, 1)]
        elif cfg["alphabet"] == "tags":      # 4 tagged words
            per = [(v, t) for v in (0, 1) for t in TAGS4]
        else:                                # 3 tagged words
            per = [(v, t) for v in (0, 1) for t in TAGS3]
        acts = [()]
        for _ in range(n):
            acts = [a + (x,) for a in acts for x in per]
        self._acts = [(r,) + a for a in acts for r in (0, 1)]
        self._vecs = {}          # action -> input vector (pure cache)

    # ---- DUT
    def build(self):
        n = self.n
        ins, obs = {}, {}
        if self.kind == "stream":
            from luna.gateware.stream.arbiter import StreamArbiter
            from luna.gateware.stream import StreamInterface
            d = StreamArbiter()
            for i in range(n):
                s = StreamInterface()
                d.add_stream(s)
                ins[f"v{i}"] = s.valid; ins[f"p{i}"] = s.payload; ins[f"f{i}"] = s.first; ins[f"l{i}"] = s.last
                obs[f"rdy{i}"] = s.ready
            ins["src_ready"] = d.source.ready
            obs.update(src_valid=d.source.valid, src_payload=d.source.payload, src_first=d.source.first,
                       src_last=d.source.last, idle=d.idle)
        else:
            from luna.gateware.usb.usb3.link.header import HeaderQueueArbiter, HeaderQueue
            fields, _ = _header_fields()
            d = HeaderQueueArbiter()
            for i in range(n):
                q = HeaderQueue()
                d.add_producer(q)
                ins[f"v{i}"] = q.valid
                for name, _, _ in fields: ins[f"h{i}_{name}"] = getattr(q.header, name)
                obs[f"rdy{i}"] = q.ready
            ins["src_ready"] = d.source.ready
            obs.update(src_valid=d.source.valid, idle=d.idle)
            for name, _, _ in fields: obs[f"src_{name}"] = getattr(d.source.header, name)
            self._fields = fields
        return Design(d, ins, obs)

    def env0(self):
        # unknown convention ('R' registered / 'C' combinational hand-over) and unknown initial selection
        return frozenset((c, s, "f") for c in "RC" for s in range(self.n))

    def actions(self, env):
        return self._acts

    def assumptions(self):
        return ["none on the producers or the consumer: every valid/first/last/payload/ready combination is applied in every state",
                "payload/first/last of the source are compared only while the source is valid"]

    def goals(self):
        g = ["transfer", "stall", "idle"]
        if self.n > 1: g += ["handover", "held-against-higher-priority", "lower-priority-served"]
        return g

    # ---- driving
    def _drive(self, cur, a):
        v = self._vecs.get(a)
        if v is None:
            kw = dict(src_ready=a[0])
            if self.kind == "stream":
                for i, (vl, (p, f, l)) in enumerate(a[1:]):
                    kw[f"v{i}"] = vl; kw[f"p{i}"] = p; kw[f"f{i}"] = f; kw[f"l{i}"] = l
            else:
                for i, (vl, h) in enumerate(a[1:]):
                    kw[f"v{i}"] = vl
                    hv = HDR_VALUES[h]
                    for name, pos, width in self._fields:
                        kw[f"h{i}_{name}"] = (hv >> pos) & ((1 << width) - 1)
            v = self._vecs[a] = cur.model.vec(**kw)
        return cur.step_vec(v)

    def _src_word(self, o):
        if self.kind == "stream":
            return (o.src_payload, o.src_first, o.src_last)
        hv = 0
        for name, pos, width in self._fields:
            hv |= getattr(o, f"src_{name}") << pos
        return HDR_VALUES.index(hv) if hv in HDR_VALUES else ("unknown-header", hex(hv))

    def apply(self, cur, env, a):
        n = self.n
        o = self._drive(cur, a)
        src_ready = a[0]
        valid = [x[0] for x in a[1:]]
        word = [x[1] for x in a[1:]]
        rdy = list(o[:n])                                    # rdy0..rdy{n-1} are the first n observed signals
        sv = 1 if o.src_valid else 0
        sw = self._src_word(o)
        anyv = int(any(valid))

        # -- convention-free checks
        if o.idle != (0 if anyv else 1):
            raise Violation("idle-wrong", dict(valid=valid, idle=o.idle))
        taken = [i for i in range(n) if valid[i] and rdy[i]]
        handed = bool(sv and src_ready)
        if len(taken) > 1:
            raise Violation("accept:two-inputs-at-once", dict(taken=taken))
        if taken and not handed:
            raise Violation("accept:word-lost", dict(taken=taken, src_valid=sv, src_ready=src_ready))
        if handed and not taken:
            raise Violation("accept:word-invented-or-duplicated", dict(src_word=sw, valid=valid, ready=rdy))
        if handed and sw != word[taken[0]]:
            raise Violation("accept:word-corrupted", dict(input=taken[0], sent=word[taken[0]], delivered=sw))

        # -- reference arbiter (candidate set).  A candidate is (convention, sel, why-sel): 'h' = sel's valid was held
        #    through the last cycle (must not switch), 'p' = sel was picked by priority, 'f' = free (nothing was offered),
        #    'dN' = sel is idle, others wait, the hand-over is pending for N cycles.
        lowest = valid.index(1) if anyv else None
        allsel = range(n)
        nxt = set()
        wiring = None
        expected = []
        consistent = [j for j in allsel if sv == valid[j] and (not sv or sw == word[j]) and rdy[j] == src_ready
                      and not any(rdy[i] for i in allsel if i != j)]
        for conv, sel, reason in sorted(env):
            if conv == "C" and not valid[sel] and anyv:
                eff, reason = lowest, "p"                     # combinational hand-over
            else:
                eff = sel
            expected.append((conv, eff, reason))
            if sv != valid[eff]:
                wiring = wiring or ("source-valid-not-from-selected", dict(selected=eff, valid=valid, src_valid=sv)); continue
            if sv and sw != word[eff]:
                wiring = wiring or ("source-word-not-from-selected", dict(selected=eff, expected=word[eff], got=sw)); continue
            if any(rdy[i] for i in allsel if i != eff):
                wiring = wiring or ("ready-to-unselected-input", dict(selected=eff, ready=rdy)); continue
            if rdy[eff] != src_ready:
                wiring = wiring or ("ready-not-passed-to-selected", dict(selected=eff, ready=rdy, src_ready=src_ready)); continue
            if valid[eff]:
                nxt.add((conv, eff, "h"))                     # burst in progress: selection is frozen
            elif not anyv:
                for j in allsel: nxt.add((conv, j, "f"))      # nobody offers: the statement leaves the parking position open
            elif conv == "R":
                nxt.add((conv, lowest, "p"))                  # registered hand-over to the highest-priority waiting input
                d = int(reason[1:]) if reason[0] == "d" else 0
                if d < HANDOVER_SLACK:                        # ... which the statement does not time: it may take a few
                    nxt.add((conv, eff, f"d{d + 1}"))         #     cycles, the pick being made when it happens
            else:
                raise AssertionError("unreachable")
        if not nxt:
            detail = dict(valid=valid, ready=rdy, src_valid=sv, src_ready=src_ready, expected_selection=expected,
                          behaves_as_if_selected=consistent)
            if consistent:
                reasons = {r for _, _, r in expected}
                if reasons == {"h"}: raise Violation("arbiter:switched-while-valid-held", detail)
                if all(r == "p" or r[0] == "d" for r in reasons): raise Violation("arbiter:not-highest-priority-waiting", detail)
                raise Violation("arbiter:wrong-input-selected", detail)
            raise Violation("arbiter:" + wiring[0], dict(wiring[1], **detail))

        # -- cover
        if handed: self.cover["transfer"] += 1
        if sv and not src_ready: self.cover["stall"] += 1
        if not anyv: self.cover["idle"] += 1
        sels = {s for _, s, _ in env}
        if len(sels) == 1:
            s = next(iter(sels))
            if valid[s] and lowest is not None and lowest < s: self.cover["held-against-higher-priority"] += 1
            if valid[s] and s > 0: self.cover["lower-priority-served"] += 1
            if not valid[s] and anyv: self.cover["handover"] += 1
        self.outcomes.add((sv, tuple(rdy), o.idle))
        return frozenset(nxt)


class MuxSpec(Spec):
    """StreamMultiplexer (the title's 'multiplexers'): it has no scheduler and documents the assumption that only one
    input talks at a time; under exactly that assumption it must forward the talking input's words unmodified and
    pass ready back to it alone."""
    n_validate = 6

    def __init__(self, cfg, tier):
        super().__init__(cfg, tier)
        self.n = cfg["n"]
        self.time_budget = 150
        words = [(p, f, l) for p in PAYLOADS for f in (0, 1) for l in (0, 1)]
        acts = []
        for r in (0, 1):
            acts.append((r, None, (0, 0, 0), (0, 0, 0)))
            acts.append((r, None, (0, 0, 0), (0xFF, 1, 1)))              # nobody valid, garbage on the idle inputs
            for i in range(self.n):
                for w in words:
                    for other in ((0, 0, 0), (0xFF, 1, 1)):              # what the silent inputs show meanwhile
                        acts.append((r, i, w, other))
        self._acts = acts

    def build(self):
        from luna.gateware.stream.arbiter import StreamMultiplexer
        from luna.gateware.stream import StreamInterface
        d = StreamMultiplexer()
        ins, obs = {}, {}
        for i in range(self.n):
            s = StreamInterface()
            d.add_input(s)
            ins[f"v{i}"] = s.valid; ins[f"p{i}"] = s.payload; ins[f"f{i}"] = s.first; ins[f"l{i}"] = s.last
            obs[f"rdy{i}"] = s.ready
        ins["out_ready"] = d.output.ready
        obs.update(out_valid=d.output.valid, out_payload=d.output.payload, out_first=d.output.first, out_last=d.output.last)
        return Design(d, ins, obs)

    def actions(self, env): return self._acts

    def assumptions(self):
        return ["StreamMultiplexer: at most one input asserts valid in any cycle (the class documents this requirement)"]

    def goals(self): return ["transfer", "stall", "idle"]

    def apply(self, cur, env, a):
        r, who, w, other = a
        kw = dict(out_ready=r)
        for i in range(self.n):
            p, f, l = w if i == who else other
            kw[f"v{i}"] = int(i == who); kw[f"p{i}"] = p; kw[f"f{i}"] = f; kw[f"l{i}"] = l
        o = cur.step(**kw)
        rdy = list(o[:self.n])
        if who is None:
            if o.out_valid: raise Violation("mux:valid-without-input", dict())
            if any(rdy): raise Violation("mux:ready-to-silent-input", dict(ready=rdy))
            self.cover["idle"] += 1
            return env
        if not o.out_valid: raise Violation("mux:word-not-forwarded", dict(input=who))
        if (o.out_payload, o.out_first, o.out_last) != w:
            raise Violation("mux:word-corrupted", dict(input=who, sent=w, got=(o.out_payload, o.out_first, o.out_last)))
        if any(rdy[i] for i in range(self.n) if i != who): raise Violation("mux:ready-to-silent-input", dict(ready=rdy, talking=who))
        if rdy[who] != r: raise Violation("mux:ready-not-passed", dict(ready=rdy, talking=who, out_ready=r))
        self.cover["transfer" if r else "stall"] += 1
        return env


def make(cfg, tier):
    return MuxSpec(cfg, tier) if cfg["kind"] == "mux" else ArbiterSpec(cfg, tier)
