# C02 - USB2 data packets are accepted iff their CRC16 is valid, payload intact.   Per-cycle UTMI receive harness.
# DUTs: (a) USBDataPacketReceiver(standalone=True) (60 MHz clock, full-speed timing; the only speed that variant supports:
# its `speed` argument falls back to FULL for USBSpeed.HIGH == 0); (b) the receiver as wired inside
# USBDevice (shared CRC16 unit and inter-packet timer), observed where every endpoint sees it (ProbeEndpoint.interface).
#
# Environment, one action = one clock cycle unless stated:
#   ("start",)   rx_active rises (no byte in that cycle)          ("byte", b)  rx_valid with rx_data=b
#   ("wait", g)  rx_active high, rx_valid low, garbage g on rx_data (a gap between bytes)
#   ("end",)     rx_active falls (after any prefix of a packet: truncated / aborted packets included)
#   ("gap", n)   n more idle cycles (macro step; n >= the host's minimum inter-packet delay), then the next packet may start
#   ("settle",)  a long idle period (macro step) that lets the inter-packet timer saturate
# Packets are drawn from *families* (explicit packet sets compiled into a prefix tree; every prefix can be ended):
# for each PID of the family and each payload over a small tagged byte alphabet up to a maximum length, the trailers
#   correct CRC16 (low byte first) | low byte with a flipped bit | high byte with a flipped bit | bytes swapped,
# so truncations give "payload only", "payload + first CRC byte", packets with 0 and 1 byte after the PID, etc.
# PIDs: DATA0, DATA1, DATA2, MDATA, DATA0 with a corrupted check nibble, ACK, IN.  Every family also contains, for each of
# its non-data / corrupted PIDs, long packets "PID + 0..2 filler bytes + an embedded complete data packet" (good and bad
# CRC), which must be ignored as a whole.  cfg["fams"] names the family used for the 1st, 2nd (3rd) packet of a run.
#
# Oracle (written from the statement, CRC16 from rtlmc.usbref):
#   * every stream.next pulse of a packet carries the next not yet streamed byte after the PID, in order; when the
#     packet is over exactly the bytes between the PID and the last two have been streamed (nothing for packets with
#     fewer than two bytes after the PID) -- for packets whose PID is not a valid data PID "nothing at all" is admitted too;
#   * valid DATAx/MDATA PID, >= 2 bytes after it, last two == CRC16(rest)  -> exactly one packet_complete strobe, no crc_mismatch
#     (standalone: packet_id == PID; in USBDevice: rx_pid_toggle == 1 iff DATA1, judged for DATA0/DATA1)
#   * valid data PID, >= 2 bytes, CRC wrong                                -> exactly one crc_mismatch strobe, no packet_complete
#   * valid data PID, < 2 bytes after it                                   -> no packet_complete (crc_mismatch tolerated, not required)
#   * corrupted check nibble                                               -> no packet_complete (crc_mismatch tolerated)
#   * well-formed non-data PID                                             -> neither strobe
#   strobes appear 0..WIN cycles after the first cycle with rx_active low; never both for one packet; none at other times.
#   * ready_for_response only between a packet_complete strobe and the start of the next packet.
from itertools import product
from rtlmc.model import Design, Violation
from rtlmc.explore import Spec
from rtlmc import usbref as U

PROPERTY = "C02"
TECHNIQUE = "per-cycle explicit-state exploration of USBDataPacketReceiver (standalone and inside USBDevice) over packet families"
LEVEL_TEXT = ("All UTMI receive histories made of 2-3 packets from the packet families (data PIDs, corrupted PID, non-data PIDs; payload "
              "lengths 0..4 over a tagged alphabet; correct / bit-flipped / swapped CRC16; every truncation point; gaps between bytes; minimal "
              "and long inter-packet delays) are enumerated cycle by cycle against the real netlist and compared with a reference receiver.")

WIN = 2
SETTLE = 700
K_STATE = 0b10
GARBAGE = (0x00, 0xC3)
BADPID = 0xD3                # DATA0 with one check-nibble bit flipped
D1, D2, D3 = (0xA5,), (0xA5, 0x00), (0xA5, 0x00, 0x3C)


def _family(spec_list, emb_level=1):
    """spec_list: [(pid_byte, data alphabet, max payload length)] -> sorted list of packets (byte tuples)"""
    out = set()
    for pidb, dvals, maxlen in spec_list:
        for n in range(maxlen + 1):
            for pl in product(dvals, repeat=n):
                c = U.crc16(pl); lo, hi = c & 0xFF, c >> 8
                for tr in ((lo, hi), (lo ^ 0x01, hi), (lo, hi ^ 0x80), (hi, lo)):
                    out.add((pidb,) + pl + tr)
    # packets whose first byte is not a valid data PID but whose later bytes would be a (CRC-valid or corrupted) data packet
    # if they stood alone: head PID + 0..2 filler bytes + embedded data packet -- must be ignored as a whole
    heads = sorted({pidb for pidb, _, _ in spec_list if not (U.pid_ok(pidb) and (pidb & 0xF) in U.DATA_PIDS)})
    d = U.data_packet
    fills = [(), (0x00,), (0x00, 0xA5)][:emb_level + 1]
    embs = [d(U.DATA1, ()), d(U.DATA0, (0xA5,)), d(U.DATA0, (0xA5,), corrupt=True), d(U.MDATA, (0x00, 0xA5))][:emb_level + 1]
    if emb_level == 0: heads = heads[:1]
    for h in heads:
        for fill in fills:
            for emb in embs:
                out.add((h,) + fill + emb)
    return sorted(out)


P = U.pid_byte
FAMILIES = {
    "full": [(P(U.DATA0), D3, 3), (P(U.DATA1), D2, 4), (P(U.DATA2), D1, 2), (P(U.MDATA), D1, 2), (BADPID, D1, 1), (P(U.ACK), D1, 0), (P(U.IN), D1, 1)],
    "wide": [(P(U.DATA0), D3, 4), (P(U.DATA1), D3, 3), (P(U.DATA2), D2, 3), (P(U.MDATA), D2, 3), (BADPID, D2, 2), (P(U.ACK), D1, 1), (P(U.IN), D1, 2),
             (P(U.SETUP), D1, 0), (0x3C, D1, 1)],
    "mid":  [(P(U.DATA0), D2, 2), (P(U.DATA1), D1, 3), (P(U.MDATA), D1, 1), (BADPID, D1, 1), (P(U.ACK), D1, 0)],
    "rep":  None,
}


def _rep():
    d = U.data_packet
    return [d(U.DATA0, (0xA5, 0x3C)), d(U.DATA1, ()), d(U.DATA1, (0x00,), corrupt=True), d(U.MDATA, (0xA5,)),
            (BADPID,) + d(U.DATA0, (0xA5,))[1:], U.handshake(U.ACK), U.token(U.IN, 0x2A, 1),
            d(U.DATA0, (0xA5, 0x3C))[:-1]]


def packets_of(name):
    return _rep() if name == "rep" else _family(FAMILIES[name], {"mid": 0, "full": 1, "wide": 3}[name])


def configs(tier):
    # dut: standalone | device;  fams: packet family per packet of the run;  gaps: per-packet budget of gap cycles while the
    # inter-packet timer runs (gaps are unbounded when it is saturated);  extra: additional idle cycles tried on top of the
    # minimum inter-packet delay
    def c(dut, fams, gaps, extra=(0,)): return dict(dut=dut, fams=list(fams), gaps=gaps, extra=list(extra))
    if tier == "quick":
        return [c("standalone", ["wide", "mid"], 1), c("standalone", ["mid", "wide"], 1), c("standalone", ["full", "full"], 0),
                c("standalone", ["rep", "mid", "mid"], 1, (0, 2)),
                c("device", ["wide", "mid"], 1), c("device", ["mid", "wide"], 1), c("device", ["full", "full"], 0),
                c("device", ["rep", "mid", "mid"], 1, (0, 2))]
    three = [(["wide", "full"], 1, (0,)), (["full", "wide"], 1, (0,)), (["wide", "mid"], 2, (0, 1)), (["mid", "wide"], 2, (0, 2)),
             (["rep", "full", "mid"], 1, (0,)), (["mid", "rep", "full"], 1, (0, 3)), (["mid", "mid", "mid"], 0, (0,))]
    return [c(dut, f, g, e) for dut in ("standalone", "device") for f, g, e in three]


def verdict(pkt):
    """reference decision for a finished packet (tuple of bytes, possibly empty) ->
    (expected strobe: 'complete' | 'mismatch' | 'short' | 'badpid' | 'nondata' | 'empty', payload the receiver must have streamed)"""
    if not pkt: return "empty", ()
    pidb, body = pkt[0], pkt[1:]
    payload = body[:-2] if len(body) >= 2 else ()
    if not U.pid_ok(pidb): return "badpid", payload
    if (pidb & 0xF) not in U.DATA_PIDS: return "nondata", payload
    if len(body) < 2: return "short", ()
    c = U.crc16(payload)
    return ("complete" if (body[-2], body[-1]) == (c & 0xFF, c >> 8) else "mismatch"), payload


class ReceiverSpec(Spec):
    n_validate = 8

    def __init__(self, cfg, tier):
        super().__init__(cfg, tier)
        # wall-clock caps, generous because the machine is shared; the configurations are sized for <= ~20 s (quick) and
        # <= ~90 s (thorough) of CPU each and close well before the cap on an idle machine
        self.time_budget = 900 if tier == "quick" else 3000
        self.max_states = 6_000_000
        self.device = cfg["dut"] == "device"
        self.gaps = cfg["gaps"]
        self.npk = len(cfg["fams"])
        # minimum inter-packet delay the host leaves (USB 2.0 7.1.18.1: 2 FS bit times / 8 HS bit times), in cycles with
        # rx_active low *after* the first one: the DUT's own rx-to-tx delay (10 / 1 cycles at 60 MHz, 2 at 12 MHz) + 2
        self.mingap = (2 if self.device else 10) + 2
        self.trees = []
        for name in cfg["fams"]:
            t = {}
            for p in packets_of(name):
                for i in range(len(p)):
                    t.setdefault(p[:i], set()).add(p[i])
            self.trees.append({k: [("byte", b) for b in sorted(v)] for k, v in t.items()})
        self._vc = {}

    # ------------------------------------------------------------------ DUT
    def build(self):
        from luna.gateware.interface.utmi import UTMIInterface
        if not self.device:
            from luna.gateware.usb.usb2.packet import USBDataPacketReceiver
            u = UTMIInterface()
            d = USBDataPacketReceiver(utmi=u, standalone=True)
            ins = dict(rx_active=u.rx_active, rx_valid=u.rx_valid, rx_data=u.rx_data)
            obs = dict(next=d.stream.next, payload=d.stream.payload, complete=d.packet_complete, mismatch=d.crc_mismatch,
                       rfr=d.ready_for_response, pid=d.packet_id)
            return Design(d, ins, obs)
        from harness._usb2dev import build_device
        design, h = build_device(control=None, endpoints=[], probe=True)
        i = h["eprobe"].interface
        design.observes = dict(next=i.rx.next, payload=i.rx.payload, complete=i.rx_complete, mismatch=i.rx_invalid,
                               rfr=i.rx_ready_for_response, pid=i.rx_pid_toggle, tx_valid=h["utmi"].tx_valid)
        design.defaults.update(line_state=K_STATE)
        return design

    def assumptions(self):
        a = ["UTMI: rx_valid is only asserted while rx_active is high and not in the first cycle of rx_active; a packet is one contiguous rx_active period; rx_data is arbitrary while rx_valid is low",
             f"the host leaves the inter-packet delay of USB 2.0 7.1.18.1 between packets: rx_active stays low for at least {self.mingap + 1} cycles (the receiver's own rx-to-tx delay + 3)",
             f"strobe latency is not fixed by the statement: packet_complete / crc_mismatch may appear 0..{WIN} cycles after the first cycle with rx_active low",
             "a crc_mismatch strobe is tolerated (not required) for data packets with fewer than two bytes after the PID and for packets whose PID check nibble is corrupted",
             "for packets whose PID is not a valid data PID, streaming nothing at all is admitted as well",
             "gaps inside a packet are unbounded while the inter-packet timer is saturated and bounded by the gap budget otherwise; rx_error is not modelled"]
        if self.device:
            a.append("USBDevice at full speed on a UTMI bus with only a non-driving probe endpoint; line_state held at K so that the reset sequencer's suspend timer stays at zero (it is not part of this property); connect=1; tx_ready=0")
        return a

    # ------------------------------------------------------------------ environment
    # env = (k, ph, hist, ns, gb, pend, rfr_ok, sat, prev)      prev: None | 'ok' | 'rej' -- fate of the previous packet (cover goals)
    #   k packets started; ph 'idle' (next packet may start) | 'act' | 'ended' (rx_active just fell, the gap is still to come)
    #   hist bytes of the current / last packet; ns bytes streamed for it so far; gb gap budget (-1 unlimited)
    #   pend None | (kind, payload_len, seen_strobe, age) while the report window of the last packet is open
    #   rfr_ok 1 from a packet_complete strobe to the start of the next packet; sat 1 iff the timer is known to be saturated
    def env0(self):
        return (0, "idle", (), 0, 0, None, 0, 1, None)

    def prologue(self, cur):
        cur.hold(SETTLE)
        return self.env0()

    def actions(self, env):
        k, ph, hist, ns, gb, pend, rfr_ok, sat, prev = env
        if ph == "idle":
            return [("start",)] if k < self.npk else []
        if ph == "ended":
            acts = [("gap", self.mingap + e) for e in self.cfg["extra"]] if k < self.npk else [("gap", self.mingap)]
            return acts + [("settle",)]
        acts = [("end",)]
        if gb != 0: acts += [("wait", g) for g in GARBAGE]
        return acts + self.trees[k - 1].get(hist, [])

    def label(self, a):
        return list(a)

    def goals(self):
        g = ["accepted", "accepted-zlp", "crc-mismatch", "short-data-packet", "bad-pid-ignored", "non-data-ignored", "ready-for-response",
             "gap-inside-packet", "second-packet-accepted", "accepted-after-rejected", "accepted-after-accepted", "truncated-mid-payload",
             "embedded-data-packet-ignored"]
        return g

    # ------------------------------------------------------------------ one cycle + oracle
    def _cycle(self, cur, st, rx_active=0, rx_valid=0, rx_data=0):
        """st = [hist, ns, pend, rfr_ok, in_packet, prev] (mutable list local to one apply call)"""
        key = (rx_active, rx_valid, rx_data)
        v = self._vc.get(key)
        if v is None:
            v = self._vc[key] = cur.model.vec(rx_active=rx_active, rx_valid=rx_valid, rx_data=rx_data)
        o = cur.step_vec(v)
        hist, ns, pend, rfr_ok, in_packet, prev = st
        if self.device and o.tx_valid:
            raise Violation("device-transmits-unsolicited", dict(packet=list(hist)))
        if o.next:
            body = hist[1:]
            if not (in_packet or pend is not None):
                raise Violation("stream-pulse-outside-packet", dict(last_packet=list(hist), payload=o.payload))
            if ns >= len(body):
                raise Violation("stream-byte-from-nowhere", dict(packet=list(hist), streamed=ns, payload=o.payload))
            if o.payload != body[ns]:
                raise Violation("stream-wrong-byte", dict(packet=list(hist), index=ns, expected=body[ns], got=o.payload))
            st[1] = ns = ns + 1
        if o.complete and o.mismatch:
            raise Violation("complete-and-mismatch-together", dict(packet=list(hist)))
        if o.complete or o.mismatch:
            what = "complete" if o.complete else "mismatch"
            if pend is None:
                raise Violation("spurious-" + what, dict(last_packet=list(hist)))
            kind, plen, seen, age = pend
            info = dict(packet=list(hist), verdict=kind, strobe=what, earlier_strobe=seen)
            if seen is not None:
                raise Violation("complete-and-mismatch-for-one-packet" if seen != what else "strobe-repeated:" + what, info)
            if what == "complete":
                if kind != "complete": raise Violation("completed:" + kind, info)
                pidn = hist[0] & 0xF
                if not self.device:
                    if o.pid != pidn: raise Violation("completed-with-wrong-packet-id", dict(info, packet_id=o.pid))
                elif pidn in (U.DATA0, U.DATA1) and o.pid != int(pidn == U.DATA1):
                    raise Violation("completed-with-wrong-pid-toggle", dict(info, rx_pid_toggle=o.pid))
                st[3] = rfr_ok = 1
                self.cover["accepted"] += 1
                if plen == 0: self.cover["accepted-zlp"] += 1
                if prev is not None: self.cover["second-packet-accepted"] += 1
                if prev == "ok": self.cover["accepted-after-accepted"] += 1
                if prev == "rej": self.cover["accepted-after-rejected"] += 1
            else:
                if kind in ("complete", "nondata", "empty"): raise Violation("mismatch-flagged:" + kind, info)
                self.cover["crc-mismatch"] += 1
            if ns != plen and not (kind == "badpid" and ns == 0):
                raise Violation("stream-incomplete-at-strobe", dict(info, streamed=ns, expected=plen))
            st[2] = pend = (kind, plen, what, age)
        if o.rfr:
            if not rfr_ok:
                raise Violation("ready-for-response-without-completed-packet", dict(last_packet=list(hist), in_packet=in_packet))
            self.cover["ready-for-response"] += 1
        return o

    def _age(self, st):
        """advance the report window by one cycle (called after the cycle's observation was judged)"""
        hist, ns, pend, rfr_ok, in_packet, prev = st
        if pend is None: return
        kind, plen, seen, age = pend
        if age >= WIN:
            info = dict(packet=list(hist), verdict=kind, streamed=ns, expected_streamed=plen)
            if seen is None:
                if kind == "complete": raise Violation("completion-missed", info)
                if kind == "mismatch": raise Violation("mismatch-missed", info)
                if ns != plen and not (kind in ("badpid", "nondata") and ns == 0):
                    raise Violation("stream-incomplete-at-end", info)
            st[2] = None
        else:
            st[2] = (kind, plen, seen, age + 1)

    def apply(self, cur, env, a):
        k, ph, hist, ns, gb, pend, rfr_ok, sat, prev = env
        op = a[0]
        if op == "start":
            st = [(), 0, None, 0, True, prev]
            self._cycle(cur, st, rx_active=1)
            return (k + 1, "act", (), 0, (-1 if sat else self.gaps), None, 0, sat, prev)
        if op == "byte":
            hist = hist + (a[1],)
            st = [hist, ns, None, 0, True, prev]
            self._cycle(cur, st, rx_active=1, rx_valid=1, rx_data=a[1])
            return (k, ph, hist, st[1], gb, None, 0, sat, prev)
        if op == "wait":
            st = [hist, ns, None, 0, True, prev]
            self._cycle(cur, st, rx_active=1, rx_valid=0, rx_data=a[1])
            if hist: self.cover["gap-inside-packet"] += 1
            return (k, ph, hist, st[1], (gb - 1 if gb > 0 else gb), None, 0, sat, prev)
        if op == "end":
            kind, payload = verdict(hist)
            body = hist[1:]
            if ns > len(payload):
                raise Violation("streamed-crc-bytes", dict(packet=list(hist), streamed=ns, payload_length=len(payload)))
            if kind == "short": self.cover["short-data-packet"] += 1
            elif kind == "badpid": self.cover["bad-pid-ignored"] += 1
            elif kind == "nondata": self.cover["non-data-ignored"] += 1
            if kind in ("badpid", "nondata") and any(verdict(hist[i:])[0] == "complete" for i in range(1, len(hist) - 2)):
                self.cover["embedded-data-packet-ignored"] += 1
            if kind == "mismatch" and len(body) >= 3 and self._is_truncation(k, hist): self.cover["truncated-mid-payload"] += 1
            st = [hist, ns, (kind, len(payload), None, 0), 0, False, prev]
            self._cycle(cur, st)                       # first cycle with rx_active low = cycle 0 of the report window
            self._age(st)
            return (k, "ended", hist, st[1], 0, st[2], st[3], sat, prev)
        if op in ("gap", "settle"):
            st = [hist, ns, pend, rfr_ok, False, prev]
            n = a[1] if op == "gap" else self.mingap
            for _ in range(n):
                self._cycle(cur, st)
                self._age(st)
            assert st[2] is None
            if op == "settle":
                total = 0
                while total < SETTLE:
                    kcyc, first, last = cur.hold(SETTLE - total)
                    total += kcyc
                    for o in ((first,) if kcyc >= SETTLE - (total - kcyc) else (first, last)):
                        if o.complete or o.mismatch or o.next or (o.rfr and not st[3]) or (self.device and o.tx_valid):
                            raise Violation("output-changed-on-idle-bus", dict(after_idle_cycles=total + n, last_packet=list(hist), obs=list(o)))
                sat = 1
            elif st[3]:
                sat = 0                        # a completed packet restarted the inter-packet timer
            return (k, "idle", (), 0, 0, None, st[3], sat, ("ok" if st[3] else "rej"))
        raise AssertionError(a)

    def _is_truncation(self, k, hist):
        return hist in self.trees[k - 1]


def make(cfg, tier):
    return ReceiverSpec(cfg, tier)
