# Conformance: replay an input log recorded on the C model in amaranth.sim (AST interpreter, independent of the
# netlist path) on a *fresh* elaboration of the DUT and compare every observed signal cycle by cycle.
import warnings
warnings.filterwarnings("ignore")
from amaranth.sim import Simulator
from .model import MachineryError


def expand_log(log):
    """yield (vec, expected_obs, clkmask) per cycle from a Cursor log (expanding hold entries)."""
    for e in log:
        if len(e) == 3 and isinstance(e[2], tuple) and e[2] and e[2][0] == "hold":
            v, first, (_, k, last) = e
            for i in range(k):
                yield v, (last if i == k - 1 else first), None
        elif len(e) == 3:
            yield e[0], e[1], e[2]
        else:
            yield e[0], e[1], None


def replay(model, log, max_cycles=None):
    """Returns number of cycles compared; raises MachineryError on the first divergence."""
    d = model.build_fn()
    ins = [d.inputs[n] for n in model.in_names]
    outs = [d.observes[n] for n in model.obs_names]
    sim = Simulator(d.dut)
    domains = list(model.clk_domains) or ["sync"]
    P = 1e-6
    timed = bool(model.clocks)
    if timed:
        # declared dividers: every step is one period P of the (possibly absent) divider-1 clock; each domain that exists in
        # the design gets a phase-locked clock; the testbench advances by time, so a design that (e.g. after a change) has
        # lost its fastest domain is still stepped exactly like the C model.
        for d_ in domains:
            if d_ not in model.clocks: raise MachineryError(f"no divider declared for domain {d_}")
            div, ph = model.clocks[d_]
            sim.add_clock(P * div, phase=P / 2 + ph * P, domain=d_)
    else:
        if len(domains) > 1: raise MachineryError("multi-clock design without Design.clocks")
        sim.add_clock(P, domain=domains[0])
    omasks = [(1 << len(o)) - 1 for o in outs]
    result = {"cycles": 0, "err": None}

    async def tb(ctx):
        prev = None
        n = 0
        for vec, exp, mk in expand_log(log):
            if model.clocks and mk is not None and mk != model._masks[n % model._lcm]:
                result["err"] = f"cycle {n}: clock mask {mk} does not follow the declared dividers"
                return
            if prev is None:
                for s, v in zip(ins, vec): ctx.set(s, v)
            else:
                for s, v, pv in zip(ins, vec, prev):
                    if v != pv: ctx.set(s, v)
            prev = vec
            got = tuple(ctx.get(o) & om for o, om in zip(outs, omasks))
            if got != tuple(exp):
                diff = [(nm, g, e) for nm, g, e in zip(model.obs_names, got, exp) if g != e]
                result["err"] = f"cycle {n}: amaranth.sim vs C model differ on {diff[:6]}"
                return
            n += 1
            result["cycles"] = n
            if max_cycles and n >= max_cycles: return
            if timed: await ctx.delay(P)
            else: await ctx.tick(domains[0])

    sim.add_testbench(tb)
    sim.run()
    if result["err"]:
        raise MachineryError(result["err"])
    return result["cycles"]
