# Transparent probes added through the documented extension points of the classes under test.
from amaranth import Elaboratable, Module


class ProbeRequestHandler(Elaboratable):
    """A request handler that never claims anything; its RequestHandlerInterface exposes what the control endpoint
    shows to every handler (setup packet, data_requested/status_requested, handshakes_in ...)."""
    def __init__(self):
        from luna.gateware.usb.usb2.request import RequestHandlerInterface
        self.interface = RequestHandlerInterface()
    def elaborate(self, platform):
        return Module()


class ProbeEndpoint(Elaboratable):
    """An endpoint that never drives anything; its EndpointInterface exposes the device-side view every endpoint
    gets (tokenizer, rx stream, rx_complete/rx_invalid, handshakes_in, active_address/active_config ...)."""
    def __init__(self):
        from luna.gateware.usb.usb2.endpoint import EndpointInterface
        self.interface = EndpointInterface()
    def elaborate(self, platform):
        return Module()
