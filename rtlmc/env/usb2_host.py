# Packet-level USB 2.0 host + UTMI PHY environment for device-level harnesses (DUT = USBDevice on a UTMIInterface).
#
# One call of Host.send() = one bus event: the host transmits one packet on the UTMI receive side, then either
# collects the device's response (waiting at most `resp_wait` cycles for it to start) or, for packets that solicit
# no response, leaves the inter-packet gap.  Legal-host assumptions (listed in assumptions()):
#   * the host never transmits while the device transmits; rx_valid only under rx_active; the first rx_active cycle
#     carries no byte (sync detection), at least `gap` idle cycles separate packets;
#   * after a packet that solicits a response the host waits for it to start within resp_wait cycles (bus
#     turn-around time-out, 16-18 bit times at full speed = 16-18 cycles of the 12 MHz UTMI clock) and otherwise goes on;
#   * the line leaves the idle J state during every packet (so the suspend timer restarts), modelled as line_state=K
#     while the host sends and for one cycle at the end of every bus event.
from rtlmc import usbref as U
from rtlmc.model import Violation

J, K, SE0 = 0b01, 0b10, 0b00


def utmi_design_ports(utmi):
    ins = dict(rx_data=utmi.rx_data, rx_active=utmi.rx_active, rx_valid=utmi.rx_valid, tx_ready=utmi.tx_ready,
               line_state=utmi.line_state, session_end=utmi.session_end, rx_error=utmi.rx_error)
    obs = dict(tx_data=utmi.tx_data, tx_valid=utmi.tx_valid)
    return ins, obs


UTMI_DEFAULTS = dict(line_state=J, session_end=0, tx_ready=0)


class Host:
    def __init__(self, gap=1, pace=1, resp_wait=20, strict_wire=False, ready_period=1, extra=None):
        self.gap, self.pace, self.resp_wait, self.strict = gap, pace, resp_wait, strict_wire
        self.ready_period = ready_period
        self.extra = extra or {}          # additional constant inputs (e.g. connect=1) merged into every cycle
        self.on_cycle = None              # optional callback(o) for harness monitors, called for every cycle

    def assumptions(self):
        return ["legal host: never transmits while the device transmits; rx_valid only under rx_active; first rx_active cycle carries no byte",
                f"inter-packet gap {self.gap} cycle(s); byte pacing 1 byte per {self.pace} cycle(s); tx_ready every {self.ready_period} cycle(s)",
                f"host waits at most {self.resp_wait} cycles for a solicited response to start",
                "line state leaves J during every packet and for one cycle at the end of every bus event (suspend timer restarts)"]

    # ---- cycle primitive
    def _cyc(self, cur, **kw):
        if self.extra:
            kw = {**self.extra, **kw}
        o = cur.step(**kw)
        if self.on_cycle: self.on_cycle(o)
        return o

    def idle(self, cur, n=1, line=J):
        """n idle cycles; device must stay silent unless strict is off (then its output is ignored)."""
        for _ in range(n):
            o = self._cyc(cur, line_state=line)
            if o.tx_valid and self.strict:
                raise Violation("wire:unsolicited-transmission", dict(byte=o.tx_data))

    def send(self, cur, pkt, expect, abort_after=None, rx_error_at=None):
        """Host sends `pkt` (tuple of bytes).  expect=True: packet solicits a response -> returns the device packet as a
        tuple of bytes, or None if the device stayed silent.  expect=False: leaves the inter-packet gap, returns None.
        abort_after=k: the PHY drops rx_active after k bytes (truncated packet)."""
        strict = self.strict
        n = len(pkt) if abort_after is None else abort_after
        o = self._cyc(cur, rx_active=1, line_state=K)
        if o.tx_valid: self._collision(o)
        for i in range(n):
            for _ in range(self.pace - 1):
                o = self._cyc(cur, rx_active=1, line_state=K)
                if o.tx_valid: self._collision(o)
            kw = dict(rx_active=1, rx_valid=1, rx_data=pkt[i], line_state=K)
            if rx_error_at == i: kw["rx_error"] = 1
            o = self._cyc(cur, **kw)
            if o.tx_valid: self._collision(o)
        for _ in range(self.pace - 1):
            o = self._cyc(cur, rx_active=1, line_state=K)
            if o.tx_valid: self._collision(o)
        # end of packet: rx_active falls
        resp = None
        waited = 0
        limit = self.resp_wait if expect else self.gap
        while waited < limit:
            o = self._cyc(cur, line_state=J, tx_ready=0)
            waited += 1
            if o.tx_valid:
                if not expect:
                    if strict: raise Violation("wire:unsolicited-transmission", dict(after=[hex(b) for b in pkt], byte=o.tx_data))
                    raise PruneCollision()
                resp = self._collect(cur)
                break
        # keep-alive blip and gap
        self._cyc(cur, line_state=K)
        for _ in range(self.gap):
            o = self._cyc(cur, line_state=J)
            if o.tx_valid:
                if strict: raise Violation("wire:transmission-after-response-window", dict(byte=o.tx_data))
                raise PruneCollision()
        return resp

    def _collision(self, o):
        if self.strict:
            raise Violation("wire:transmits-while-receiving", dict(byte=o.tx_data))
        raise PruneCollision()

    def _collect(self, cur):
        """Device has tx_valid high (seen in a cycle with tx_ready=0).  Accept bytes with the configured tx_ready pattern
        until tx_valid falls.  Returns the tuple of accepted bytes."""
        got = []
        phase = 0
        for _ in range(4000):
            rdy = 1 if (phase % self.ready_period) == self.ready_period - 1 else 0
            phase += 1
            o = self._cyc(cur, line_state=K, tx_ready=rdy)
            if not o.tx_valid:
                return tuple(got)
            if rdy: got.append(o.tx_data)
        raise Violation("wire:endless-transmission", dict(bytes=len(got)))

    # ---- convenience
    def token(self, cur, pid, addr, ep, expect):
        return self.send(cur, U.token(pid, addr, ep), expect)


class PruneCollision(Exception):
    """raised in non-strict mode when the device transmits where a legal host cannot cope (bus collision):
    harness apply() should catch it and return None (transition pruned) — C20's strict harness reports these."""
