# ./check front end: run a property's harness over all its configurations in parallel, merge, write evidence.
import sys, os, json, time, glob, importlib, hashlib, fnmatch, traceback, argparse, multiprocessing

VERIF = os.path.dirname(os.path.dirname(os.path.abspath(__file__)))
if VERIF not in sys.path: sys.path.insert(0, VERIF)
os.environ.setdefault("PYTHONHASHSEED", "0")

from rtlmc.model import Model, Violation, MachineryError
from rtlmc import explore, pysim


def tuplify(x):
    if isinstance(x, list): return tuple(tuplify(y) for y in x)
    return x


def jsonable(x):
    if isinstance(x, (tuple, list)): return [jsonable(y) for y in x]
    if isinstance(x, dict): return {str(k): jsonable(v) for k, v in x.items()}
    if isinstance(x, (bytes, bytearray)): return x.hex()
    if isinstance(x, (set, frozenset)): return sorted(jsonable(y) for y in x)
    if isinstance(x, (int, float, str, bool)) or x is None: return x
    return repr(x)


def find_harness(pid):
    hits = sorted(glob.glob(os.path.join(VERIF, "harness", pid.lower() + "_*.py")))
    if not hits: raise SystemExit(f"no harness for {pid}")
    return "harness." + os.path.basename(hits[0])[:-3]


def _worker(args):
    modname, cfg, tier, seed = args
    t0 = time.time()
    try:
        mod = importlib.import_module(modname)
        if hasattr(mod, "run_config"):
            r = mod.run_config(cfg, tier, seed)
        else:
            r = explore.run_spec(mod.make(cfg, tier), seed)
        r.setdefault("config", cfg)
        return r
    except MachineryError as e:
        return dict(config=cfg, error=f"MachineryError: {e}", wall_s=time.time() - t0)
    except Exception as e:
        return dict(config=cfg, error=f"{type(e).__name__}: {e}\n{traceback.format_exc()}", wall_s=time.time() - t0)


def load_known(pid):
    known, fixed = [], []
    p = os.path.join(VERIF, "known_findings.txt")
    if os.path.exists(p):
        for line in open(p):
            line = line.strip()
            if not line or line.startswith("#"): continue
            if line.startswith("known:") and f"property={pid} " in line:
                rest = line.split(f"property={pid} ", 1)[1]
                assert rest.startswith("sig="), line
                sig, _, desc = rest[4:].partition(" :: ")
                known.append((sig.strip(), desc.strip()))
            elif line.startswith("fixed:") and f"property={pid} " in line:
                fixed.append(line)
    return known, fixed


def write_replay(pid, modname, tier, cfg, v):
    os.makedirs(os.path.join(VERIF, "replays"), exist_ok=True)
    payload = dict(property=pid, harness=modname, tier=tier, config=cfg, rule=v["rule"], detail=jsonable(v.get("detail")),
                   path=jsonable(v.get("path")), extra=jsonable(v.get("extra")))
    h = hashlib.sha1(json.dumps(payload, sort_keys=True).encode()).hexdigest()[:10]
    fn = os.path.join(VERIF, "replays", f"{pid}-{h}.json")
    with open(fn, "w") as f: json.dump(payload, f, indent=1)
    return fn


def do_replay(pid, path):
    payload = json.load(open(path))
    modname = payload["harness"]
    mod = importlib.import_module(modname)
    cfg, tier = payload["config"], payload.get("tier", "quick")
    if hasattr(mod, "replay"):
        ok, msg = mod.replay(cfg, tier, payload)
    else:
        spec = mod.make(cfg, tier)
        model = Model(spec.build)
        log = []
        try:
            explore.run_path(model, spec, tuplify(payload["path"]), log)
            ok, msg = True, "path executed without violating the oracle"
        except Violation as e:
            ok, msg = False, f"rule={e.rule} detail={e.detail}"
        n = pysim.replay(model, log, None)
        msg += f" [trace of {n} cycles reproduced identically in amaranth.sim]"
    if ok:
        print(f"REPLAY property={pid} not reproduced: {msg}")
        return 0
    print(f"REPLAY property={pid} reproduced: {msg}")
    print(f"VIOLATION property={pid} replay={path}")
    return 1


def main(argv=None):
    ap = argparse.ArgumentParser()
    ap.add_argument("property")
    ap.add_argument("--tier", default=os.environ.get("VERIF_TIER", "quick"), choices=["quick", "thorough"])
    ap.add_argument("--replay")
    ap.add_argument("--jobs", type=int, default=int(os.environ.get("VERIF_JOBS", "16")))
    ap.add_argument("--only", help="substring filter on config name (debugging)")
    a = ap.parse_args(argv)
    pid = a.property.upper()
    seed = int(os.environ.get("VERIF_SEED", "0") or 0)
    modname = find_harness(pid)
    if a.replay:
        return do_replay(pid, a.replay)
    t0 = time.time()
    mod = importlib.import_module(modname)
    cfgs = mod.configs(a.tier)
    if a.only: cfgs = [c for c in cfgs if a.only in json.dumps(c)]
    order = list(range(len(cfgs)))
    jobs = [(modname, cfgs[i], a.tier, seed) for i in order]
    if a.jobs <= 1 or len(jobs) == 1:
        results = [_worker(j) for j in jobs]
    else:
        ctx = multiprocessing.get_context("fork")
        with ctx.Pool(min(a.jobs, len(jobs))) as pool:
            results = pool.map(_worker, jobs, chunksize=1)
    errors = [r for r in results if r.get("error")]
    known, fixed = load_known(pid)
    new_v, known_hits = [], {}
    for r in results:
        for v in r.get("violations", []):
            sig = v["rule"]
            k = next(((s, d) for s, d in known if fnmatch.fnmatchcase(sig, s)), None)
            if k: known_hits.setdefault(k, []).append((r["config"], v))
            else: new_v.append((r["config"], v))
    # cover goals: a configuration in which a *known* finding fired is pruned at that finding, so goals behind it may be
    # unreachable; those are reported as reduced coverage, not as a vacuous check.
    def _has_known(r):
        return any(any(fnmatch.fnmatchcase(v["rule"], s) for s, _ in known) for v in r.get("violations", []))
    unmet = [(r["config"], g) for r in results if not _has_known(r) for g in r.get("unmet_goals", [])]
    reduced = [(r["config"], g) for r in results if _has_known(r) for g in r.get("unmet_goals", [])]
    # ---- evidence
    ok_results = [r for r in results if not r.get("error")]
    samples = []
    for r in ok_results:
        for s in r.get("samples", [])[:1]:
            samples.append(dict(config=r["config"], trace=jsonable(s)))
    samples = samples[:6] or [dict(note="no trace sampled")]
    cover = {}
    for r in ok_results:
        for k, v in r.get("cover", {}).items(): cover[k] = cover.get(k, 0) + v
    assumptions = sorted({s for r in ok_results for s in r.get("assumptions", [])})
    ev = dict(property_id=pid, tier=a.tier, seed=seed, level="model_checking",
              coverage=dict(
                  states=sum(r.get("states", 0) for r in ok_results),
                  transitions=sum(r.get("transitions", 0) for r in ok_results),
                  traces_validated_against_impl=sum(r.get("traces_validated", 0) for r in ok_results),
                  cycles_validated_against_impl=sum(r.get("cycles_validated", 0) for r in ok_results),
                  samples=samples,
                  exhaustive=bool(ok_results) and all(r.get("exhaustive") for r in ok_results),
                  caps=sorted({c for r in ok_results for c in r.get("caps", [])}),
                  configurations=len(results),
                  per_configuration=[dict(config=r["config"], states=r.get("states"), transitions=r.get("transitions"),
                                          depth=r.get("depth"), exhaustive=r.get("exhaustive"), cells=r.get("cells"),
                                          state_bytes=r.get("state_bytes"), outcomes=r.get("outcomes"), wall_s=r.get("wall_s"))
                                     for r in results],
                  distinct_outcomes=sum(r.get("outcomes", 0) for r in ok_results),
                  cover_goals=cover, unmet_goals=jsonable(unmet), goals_unreachable_behind_known_findings=jsonable(reduced),
                  known_findings=[dict(sig=s, desc=d, hits=sum(v["count"] for _, v in hits)) for (s, d), hits in known_hits.items()],
                  machinery_errors=[r["error"].splitlines()[0] for r in errors],
                  method="explicit-state BFS over the C-compiled Amaranth netlist of the class under test; explored traces replayed in amaranth.sim"),
              assumptions=assumptions, wall_s=round(time.time() - t0, 2), violations=len(new_v))
    os.makedirs(os.path.join(VERIF, "evidence"), exist_ok=True)
    evp = os.path.join(VERIF, "evidence", f"{pid}.json")
    if a.only or os.environ.get("LUNA_VERIF_REPO", "/repo") != "/repo":
        # partial (debugging) runs and runs against a scratch copy of the repository (seeded changes) must not
        # overwrite the evidence of the real tree
        evp = os.path.join("/tmp", f"evidence-{pid}-{os.getpid()}.json")
    tmp = f"{evp}.{os.getpid()}.tmp"
    with open(tmp, "w") as f: json.dump(ev, f, indent=1)
    os.replace(tmp, evp)
    # ---- verdict
    cv = ev["coverage"]
    print(f"[{pid}] tier={a.tier} seed={seed} configs={len(results)} states={cv['states']} transitions={cv['transitions']} "
          f"validated_traces={cv['traces_validated_against_impl']} ({cv['cycles_validated_against_impl']} cycles) exhaustive={cv['exhaustive']} wall={ev['wall_s']}s")
    for c in cv["caps"]: print(f"[{pid}] cap: {c}")
    for (s, d), hits in known_hits.items():
        print(f"KNOWN-FINDING: property={pid} {s} {d}")
    rc = 0
    for cfg, v in new_v:
        fn = write_replay(pid, modname, a.tier, cfg, v)
        print(f"[{pid}] violated rule: {v['rule']} detail={json.dumps(jsonable(v.get('detail')))[:400]} config={json.dumps(cfg)}")
        print(f"VIOLATION property={pid} replay={fn}")
        rc = 1
    if errors:
        for r in errors: print(f"MACHINERY-ERROR property={pid} config={json.dumps(r['config'])}: {r['error']}")
        rc = rc or 2
    if unmet and not rc:
        for cfg, g in unmet: print(f"MACHINERY-ERROR property={pid} cover goal not met (vacuous exploration): {g} config={json.dumps(cfg)}")
        rc = 2
    return rc


if __name__ == "__main__":
    sys.exit(main())
