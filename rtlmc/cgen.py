# Amaranth NIR netlist -> C transition function, built with gcc and bound through ctypes.
#
# The state struct holds exactly the flip-flops, synchronous read-port data registers and memory rows
# of the elaborated design (packed; memcmp-equal <=> same hardware state).  One C local per
# combinational cell, emitted in dependency order.  Semantics follow amaranth.hdl._nir docstrings.
import ctypes, subprocess, hashlib, os, warnings
warnings.filterwarnings("ignore")
from amaranth.hdl import _ir as ir, _nir as nir, Fragment

BUILD_DIR = os.environ.get("RTLMC_BUILD", os.path.join(os.path.dirname(os.path.dirname(os.path.abspath(__file__))), "build"))


def ctype_for(w):
    if w <= 8: return "uint8_t"
    if w <= 16: return "uint16_t"
    if w <= 32: return "uint32_t"
    if w <= 64: return "uint64_t"
    if w <= 128: return "u128"
    raise NotImplementedError(f"value of width {w} > 128 bits is not supported by the C back end")


def mask(w):
    if w > 64:
        return f"((((u128)1) << {w}) - 1)" if w < 128 else "(~(u128)0)"
    return f"0x{(1 << w) - 1:x}ULL"


def cconst(v):
    if v < (1 << 64):
        return f"((u128)0x{v:x}ULL)" if v >= (1 << 63) else f"0x{v:x}ULL"
    return f"((((u128)0x{v >> 64:x}ULL) << 64) | (u128)0x{v & ((1 << 64) - 1):x}ULL)"


def nwords(w):
    return max(1, (w + 63) // 64)


PRELUDE = r"""
#include <stdint.h>
#include <string.h>
typedef unsigned __int128 u128;
static inline uint64_t parity(u128 x){return __builtin_parityll((uint64_t)x) ^ __builtin_parityll((uint64_t)(x>>64));}
static inline u128 shl(u128 a, u128 b){return b>=128?0:a<<b;}
static inline u128 shr(u128 a, u128 b){return b>=128?0:a>>b;}
static inline __int128 sext(u128 v,int w){return w>=128?(__int128)v:((__int128)(v<<(128-w)))>>(128-w);}
static inline __int128 sshr(__int128 a, u128 b){return b>=127?(a<0?-1:0):a>>b;}
static inline u128 udiv(u128 a,u128 b){return b?a/b:0;}
static inline u128 umod(u128 a,u128 b){return b?a%b:0;}
static inline __int128 sdiv(__int128 a,__int128 b){ if(!b) return 0; __int128 q=a/b; if((a%b!=0) && ((a<0)!=(b<0))) q-=1; return q;}
static inline __int128 smod(__int128 a,__int128 b){ if(!b) return 0; __int128 r=a%b; if(r!=0 && ((r<0)!=(b<0))) r+=b; return r;}
"""


class Compiler:
    """Elaborate `dut`, lower it to C.  `inputs`/`observes` are lists of Signals (any Signal of the design
    may be observed; inputs must be undriven inside the design)."""

    def __init__(self, dut, inputs, observes, platform=None):
        self.frag = Fragment.get(dut, platform)
        self.inputs, self.observes = list(inputs), list(observes)
        seen = set(); ports = []
        for s in self.inputs + self.observes:
            if id(s) not in seen:
                seen.add(id(s)); ports.append(s)
        self.nl = ir.build_netlist(self.frag, ports=ports, name="top")
        self.cells = self.nl.cells
        for c in self.cells:
            if isinstance(c, (nir.Instance, nir.IOBuffer)):
                raise NotImplementedError(f"cell {type(c).__name__} cannot be modelled")
        self.lines = []
        self.emitted = set()
        self.ffs = [(i, c) for i, c in enumerate(self.cells) if isinstance(c, nir.FlipFlop)]
        self.mems = [(i, c) for i, c in enumerate(self.cells) if isinstance(c, nir.Memory)]
        self.srps = [(i, c) for i, c in enumerate(self.cells) if isinstance(c, nir.SyncReadPort)]
        self.wps = [(i, c) for i, c in enumerate(self.cells) if isinstance(c, nir.SyncWritePort)]
        top = self.nl.top
        # top input ports: name -> (start, width); assign each a slot range in the input word array
        self.port_list = sorted(top.ports_i.items(), key=lambda kv: kv[1][0])
        self.port_slot = {}
        slot = 0
        for name, (start, width) in self.port_list:
            self.port_slot[name] = slot
            slot += nwords(width)
        self.n_in_words = max(slot, 1)
        # map input Signals to ports
        self.sig_port = []   # per input signal: (slot, width) or None if unused by the design
        for s in self.inputs:
            nets = self.nl.signals.get(s) if hasattr(self.nl.signals, "get") else None
            if nets is None:
                try: nets = self.nl.signals[s]
                except KeyError: nets = None
            if nets is None or len(nets) == 0 or not (nets[0].is_cell and nets[0].cell == 0):
                if nets is not None and len(nets) and not all(n.is_const for n in nets):
                    raise ValueError(f"input signal {s!r} is driven inside the design")
                self.sig_port.append(None); continue
            b0 = nets[0].bit
            hit = [(n, sw) for n, sw in self.port_list if sw[0] == b0]
            assert hit and hit[0][1][1] == len(nets), (s, hit)
            self.sig_port.append((self.port_slot[hit[0][0]], hit[0][1][1]))
        # clocks: distinct clk nets of sequential cells
        clks = []
        for _, c in self.ffs + self.srps + self.wps:
            if c.clk not in clks: clks.append(c.clk)
            assert c.clk_edge == "pos", "negedge cells not supported"
        self.clks = clks
        self.clk_names = []
        for ck in clks:
            nm = "?"
            if ck.is_cell and ck.cell == 0:
                for n, (st, w) in self.port_list:
                    if st <= ck.bit < st + w: nm = n
            self.clk_names.append(nm)
        # observation slots
        self.obs_slot = []
        slot = 0
        for s in self.observes:
            w = len(self.nl.signals[s])
            self.obs_slot.append((slot, w)); slot += nwords(w)
        self.n_obs_words = max(slot, 1)

    def clk_index(self, net):
        return self.clks.index(net)

    # ---- value expressions
    def _top_port_of(self, bit):
        for n, (st, w) in self.port_list:
            if st <= bit < st + w: return n, st, w
        raise KeyError(bit)

    def val(self, value):
        """C expression (unsigned, exactly len(value) significant bits) for a nir.Value."""
        w = len(value)
        if w == 0: return "0ULL"
        big = "u128" if w > 64 else "uint64_t"
        chunks = []
        pos = 0
        while pos < w:
            net = value[pos]
            n = 1
            if net.is_const:
                v = net.const
                while pos + n < w and value[pos + n].is_const:
                    v |= value[pos + n].const << n; n += 1
                if v:
                    ce = f"(({big}){cconst(v)})"
                    if pos: ce = f"({ce} << {pos})"
                    chunks.append(ce)
            else:
                cell, bit = net.cell, net.bit
                if cell == 0:
                    pname, pst, pw = self._top_port_of(bit)
                    lim = pst + pw
                    while pos + n < w and value[pos + n].is_cell and value[pos + n].cell == 0 and value[pos + n].bit == bit + n and bit + n < lim:
                        n += 1
                    src = f"p{self.port_slot[pname]}"; sbit = bit - pst
                else:
                    while pos + n < w and value[pos + n].is_cell and value[pos + n].cell == cell and value[pos + n].bit == bit + n:
                        n += 1
                    self.need(cell)
                    src = self.cellvar(cell); sbit = bit
                e = f"(({big}){src})"
                if sbit: e = f"(({big})({src} >> {sbit}))"
                e = f"({e} & {mask(n)})"
                if pos: e = f"({e} << {pos})"
                chunks.append(e)
            pos += n
        return "(" + " | ".join(chunks) + ")" if chunks else f"(({big})0)"

    def sval(self, value):
        return f"sext({self.val(value)}, {len(value)})"

    def cellvar(self, idx):
        c = self.cells[idx]
        if isinstance(c, nir.FlipFlop): return f"S->ff{idx}"
        if isinstance(c, nir.SyncReadPort): return f"S->rp{idx}"
        return f"c{idx}"

    def need(self, idx):
        c = self.cells[idx]
        if idx in self.emitted or isinstance(c, (nir.Top, nir.FlipFlop, nir.SyncReadPort)):
            return
        self.emitted.add(idx)
        self.emit_cell(idx, c)

    def cell_width(self, c):
        if isinstance(c, nir.Operator): return c.width
        if isinstance(c, nir.Part): return c.width
        if isinstance(c, nir.Matches): return 1
        if isinstance(c, nir.PriorityMatch): return len(c.inputs)
        if isinstance(c, nir.AssignmentList): return len(c.default)
        if isinstance(c, nir.AsyncReadPort): return c.width
        raise NotImplementedError(type(c).__name__)

    def emit_cell(self, idx, c):
        w = self.cell_width(c)
        t = ctype_for(w)
        m = mask(w)
        if isinstance(c, nir.Operator):
            op, a = c.operator, c.inputs
            V, SV = self.val, self.sval
            if op == '~': e = f"~{V(a[0])}"
            elif op == '-' and len(a) == 1: e = f"-(u128){V(a[0])}"
            elif op in ('b', 'r|'): e = f"({V(a[0])} != 0)"
            elif op == 'r&': e = f"({V(a[0])} == {mask(len(a[0]))})"
            elif op == 'r^': e = f"parity({V(a[0])})"
            elif op in ('+', '-', '*'): e = f"(u128){V(a[0])} {op} (u128){V(a[1])}"
            elif op in ('&', '^', '|'): e = f"{V(a[0])} {op} {V(a[1])}"
            elif op == 'u//': e = f"udiv({V(a[0])}, {V(a[1])})"
            elif op == 'u%': e = f"umod({V(a[0])}, {V(a[1])})"
            elif op == 's//': e = f"(u128)sdiv({SV(a[0])}, {SV(a[1])})"
            elif op == 's%': e = f"(u128)smod({SV(a[0])}, {SV(a[1])})"
            elif op == '<<': e = f"shl({V(a[0])}, {V(a[1])})"
            elif op == 'u>>': e = f"shr({V(a[0])}, {V(a[1])})"
            elif op == 's>>': e = f"(u128)sshr({SV(a[0])}, {V(a[1])})"
            elif op in ('==', '!='): e = f"({V(a[0])} {op} {V(a[1])})"
            elif op[0] == 'u' and op[1:] in ('<', '>', '<=', '>='): e = f"({V(a[0])} {op[1:]} {V(a[1])})"
            elif op[0] == 's' and op[1:] in ('<', '>', '<=', '>='): e = f"({SV(a[0])} {op[1:]} {SV(a[1])})"
            elif op == 'm': e = f"({V(a[0])} ? {V(a[1])} : {V(a[2])})"
            else: raise NotImplementedError(op)
            self.lines.append(f"  {t} c{idx} = ({t})(({e}) & {m});")
        elif isinstance(c, nir.Part):
            off = f"((u128){self.val(c.offset)} * {c.stride})"
            if c.value_signed:
                e = f"(u128)sshr({self.sval(c.value)}, {off})"
            else:
                e = f"shr({self.val(c.value)}, {off})"
            self.lines.append(f"  {t} c{idx} = ({t})(({e}) & {m});")
        elif isinstance(c, nir.Matches):
            v = self.val(c.value)
            terms = []
            for p in c.patterns:
                care = int("".join('0' if ch == '-' else '1' for ch in p), 2) if p else 0
                want = int("".join('1' if ch == '1' else '0' for ch in p), 2) if p else 0
                terms.append(f"((v_ & {cconst(care)}) == {cconst(want)})")
            vt = "u128" if len(c.value) > 64 else "uint64_t"
            self.lines.append(f"  {t} c{idx}; {{ {vt} v_ = {v}; c{idx} = {' || '.join(terms) if terms else '0'}; }}")
        elif isinstance(c, nir.PriorityMatch):
            v = self.val(c.inputs); en = self.val(nir.Value(c.en))
            self.lines.append(f"  {t} c{idx}; {{ u128 v_ = {v}; c{idx} = ({t})({en} ? ((v_ & (~v_ + 1)) & {m}) : 0); }}")
        elif isinstance(c, nir.AssignmentList):
            self.lines.append(f"  {t} c{idx} = {self.val(c.default)};")
            for a in c.assignments:
                n = len(a.value)
                am = f"((({t}){mask(n)}) << {a.start})"
                cond = self.val(nir.Value(a.cond))
                self.lines.append(f"  if ({cond}) c{idx} = ({t})((c{idx} & ~{am}) | (((({t}){self.val(a.value)}) << {a.start}) & {am}));")
        elif isinstance(c, nir.AsyncReadPort):
            mem = self.cells[c.memory]
            self.lines.append(f"  {t} c{idx}; {{ uint64_t a_ = {self.val(c.addr)}; c{idx} = (a_ < {mem.depth}) ? S->mem{c.memory}[a_] : 0; }}")
        else:
            raise NotImplementedError(type(c).__name__)

    def generate(self):
        S = ["typedef struct __attribute__((packed)) {"]
        for i, c in self.ffs: S.append(f"  {ctype_for(len(c.data))} ff{i};")
        for i, c in self.srps: S.append(f"  {ctype_for(c.width)} rp{i};")
        for i, c in self.mems: S.append(f"  {ctype_for(c.width)} mem{i}[{c.depth}];")
        if not (self.ffs or self.srps or self.mems): S.append("  uint8_t dummy;")
        S.append("} state_t;")
        obs_exprs = [self.val(self.nl.signals[sig]) for sig in self.observes]
        ff_next = [(i, c, self.val(c.data), self.val(nir.Value(c.arst))) for i, c in self.ffs]
        rp_next = [(i, c, self.val(c.addr), self.val(nir.Value(c.en))) for i, c in self.srps]
        wp_exprs = [(i, c, self.val(c.data), self.val(c.addr), self.val(c.en)) for i, c in self.wps]
        body = self.lines
        code = [PRELUDE] + S
        code.append(f"enum {{ N_OBS = {self.n_obs_words}, N_IN = {self.n_in_words} }};")
        code.append("int rtl_n_obs(void){ return N_OBS; } int rtl_n_in(void){ return N_IN; }")
        code.append("void rtl_reset(state_t *S){ memset(S,0,sizeof *S);")
        for i, c in self.ffs:
            code.append(f"  S->ff{i} = ({ctype_for(len(c.data))}){cconst(c.init & ((1 << len(c.data)) - 1))};")
        for i, c in self.mems:
            for a, v in enumerate(c.init):
                if v: code.append(f"  S->mem{i}[{a}] = ({ctype_for(c.width)}){cconst(v)};")
        code.append("}")
        code.append("int rtl_state_size(void){ return sizeof(state_t); }")
        code.append("void rtl_step(state_t *S, const uint64_t *in, uint64_t *obs, unsigned clkmask){")
        for name, (start, width) in self.port_list:
            k = self.port_slot[name]
            if width > 64:
                code.append(f"  u128 p{k} = (((u128)in[{k + 1}]) << 64 | in[{k}]) & {mask(width)};")
            else:
                code.append(f"  uint64_t p{k} = in[{k}] & {mask(width)}; (void)p{k};")
        code += body
        for (slot, w), e in zip(self.obs_slot, obs_exprs):
            if w > 64:
                code.append(f"  {{ u128 o_ = {e}; obs[{slot}] = (uint64_t)o_; obs[{slot + 1}] = (uint64_t)(o_ >> 64); }}")
            else:
                code.append(f"  obs[{slot}] = (uint64_t)({e});")
        code.append("  if (!clkmask) return;")
        for i, c, d, a in ff_next:
            ck = self.clk_index(c.clk)
            code.append(f"  {ctype_for(len(c.data))} n{i} = S->ff{i}; if (clkmask & {1 << ck}) n{i} = ({ctype_for(len(c.data))}){d};")
            if not (c.arst.is_const and c.arst.const == 0):
                code.append(f"  if ({a}) n{i} = ({ctype_for(len(c.data))}){cconst(c.init & ((1 << len(c.data)) - 1))};")
        for i, c, addr, en in rp_next:
            mem = self.cells[c.memory]
            ck = self.clk_index(c.clk)
            code.append(f"  {ctype_for(c.width)} nr{i} = S->rp{i}; if ((clkmask & {1 << ck}) && ({en})) {{ uint64_t a_ = {addr}; nr{i} = (a_ < {mem.depth}) ? S->mem{c.memory}[a_] : 0;")
            for wi in c.transparent_for:
                wc = self.cells[wi]
                gran = mem.width // len(wc.en)
                for g in range(len(wc.en)):
                    gm = f"((({ctype_for(mem.width)}){mask(gran)}) << {g * gran})"
                    code.append(f"    if (((({self.val(wc.en)}) >> {g}) & 1) && ({self.val(wc.addr)} == a_)) nr{i} = (nr{i} & ~{gm}) | (({ctype_for(mem.width)}){self.val(wc.data)} & {gm});")
            code.append("  }")
        for i, c, d, addr, en in wp_exprs:
            mem = self.cells[c.memory]
            ck = self.clk_index(c.clk)
            gran = mem.width // len(c.en)
            mt = ctype_for(mem.width)
            code.append(f"  if (clkmask & {1 << ck}) {{ uint64_t a_ = {addr}; if (a_ < {mem.depth}) {{ {mt} old = S->mem{c.memory}[a_], nd = ({mt}){d}, mk = 0; uint64_t en_ = {en};")
            for g in range(len(c.en)):
                code.append(f"    if ((en_ >> {g}) & 1) mk |= ((({mt}){mask(gran)}) << {g * gran});")
            code.append(f"    S->mem{c.memory}[a_] = (old & ~mk) | (nd & mk); }} }}")
        for i, c, d, a in ff_next: code.append(f"  S->ff{i} = n{i};")
        for i, c, addr, en in rp_next: code.append(f"  S->rp{i} = nr{i};")
        code.append("}")
        code.append("void rtl_run(state_t *S, const uint64_t *ins, int n, uint64_t *obs, unsigned clkmask){ for(int i=0;i<n;i++) rtl_step(S, ins + (long)N_IN*i, obs + (long)i*N_OBS, clkmask); }")
        # hold inputs constant for up to n cycles; stop early (after the step) when any obs word differs from the first cycle's.
        code.append("int rtl_run_hold(state_t *S, const uint64_t *in, int n, uint64_t *obs, unsigned clkmask){ uint64_t first[N_OBS]; int i; for(i=0;i<n;i++){ rtl_step(S, in, obs, clkmask); if(i==0) memcpy(first, obs, sizeof first); else if (memcmp(first, obs, sizeof first)) return i+1; } return n; }")
        return "\n".join(code)

    def build(self):
        os.makedirs(BUILD_DIR, exist_ok=True)
        src = self.generate()
        h = hashlib.sha1(src.encode()).hexdigest()[:16]
        c = f"{BUILD_DIR}/m{h}.c"; so = f"{BUILD_DIR}/m{h}.so"
        if not os.path.exists(so):
            tmp = f"{so}.{os.getpid()}.tmp"
            with open(c + f".{os.getpid()}", "w") as f: f.write(src)
            os.replace(c + f".{os.getpid()}", c)
            subprocess.check_call(["gcc", "-O1", "-w", "-shared", "-fPIC", "-o", tmp, c])
            os.replace(tmp, so)
        lib = ctypes.CDLL(so)
        lib.rtl_step.argtypes = [ctypes.c_void_p, ctypes.c_void_p, ctypes.c_void_p, ctypes.c_uint]
        lib.rtl_run.argtypes = [ctypes.c_void_p, ctypes.c_void_p, ctypes.c_int, ctypes.c_void_p, ctypes.c_uint]
        lib.rtl_run_hold.argtypes = [ctypes.c_void_p, ctypes.c_void_p, ctypes.c_int, ctypes.c_void_p, ctypes.c_uint]
        lib.rtl_run_hold.restype = ctypes.c_int
        lib.rtl_reset.argtypes = [ctypes.c_void_p]
        self.src_hash = h
        self.n_src_lines = src.count("\n")
        return lib
