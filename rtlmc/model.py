# Model = the elaborated design compiled to C + convenient stepping; Cursor = a position in one execution.
import ctypes, os, sys, collections, warnings
warnings.filterwarnings("ignore")

REPO = os.environ.get("LUNA_VERIF_REPO", "/repo")
if REPO not in sys.path:
    sys.path.insert(0, REPO)

from .cgen import Compiler, nwords


class Violation(Exception):
    """Raised by a harness oracle.  `rule` is the stable signature of what failed (used for known-finding
    matching), `detail` is free text / JSON-able data."""
    def __init__(self, rule, detail=None):
        super().__init__(rule, detail)
        self.rule, self.detail = rule, detail


class MachineryError(Exception):
    pass


class Design:
    """What a harness' build() returns: the DUT and its named input / observed Signals."""
    def __init__(self, dut, inputs, observes, defaults=None, domain=None, clocks=None):
        # clocks: None (every domain ticks on every step) or {domain: (divider, phase)}: the domain ticks on step i
        # iff i % divider == phase; the fastest domain must have divider 1.  Steps are counted per Cursor from 0, so
        # multi-clock harnesses must keep every action a multiple of the slowest divider.
        self.clocks = clocks
        self.dut = dut
        self.inputs = dict(inputs)        # name -> Signal
        self.observes = dict(observes)    # name -> Signal
        self.defaults = dict(defaults or {})
        self.domain = domain


class Model:
    def __init__(self, build_fn):
        self.build_fn = build_fn
        d = build_fn()
        self.design = d
        self.in_names = list(d.inputs)
        self.obs_names = list(d.observes)
        self.comp = Compiler(d.dut, [d.inputs[n] for n in self.in_names], [d.observes[n] for n in self.obs_names])
        self.lib = self.comp.build()
        self.nstate = self.lib.rtl_state_size()
        self.n_in = self.comp.n_in_words
        self.n_obs = self.comp.n_obs_words
        self.Obs = collections.namedtuple("Obs", self.obs_names, rename=True)
        self.in_index = {n: i for i, n in enumerate(self.in_names)}
        self.default_vec = [int(d.defaults.get(n, 0)) for n in self.in_names]
        for k in d.defaults:
            if k not in self.in_index: raise KeyError(f"default for unknown input {k}")
        self._sbuf = ctypes.create_string_buffer(self.nstate)
        self._ibuf = (ctypes.c_uint64 * self.n_in)()
        self._obuf = (ctypes.c_uint64 * self.n_obs)()
        self._saddr = ctypes.addressof(self._sbuf)
        self._iaddr = ctypes.addressof(self._ibuf)
        self._oaddr = ctypes.addressof(self._obuf)
        self.allclk = (1 << max(1, len(self.comp.clks))) - 1
        self.clk_names = self.comp.clk_names
        self.clk_domains = [nm[:-4] if nm.endswith("_clk") else ("sync" if nm == "clk" else nm) for nm in self.clk_names]
        self.clocks = d.clocks
        if d.clocks:
            for dom in self.clk_domains:
                if dom not in d.clocks: raise KeyError(f"no divider given for clock domain {dom}")
            self._lcm = 1
            for div, _ in d.clocks.values():
                a, b = self._lcm, div
                while b: a, b = b, a % b
                self._lcm = self._lcm * div // a
            self._masks = []
            for i in range(self._lcm):
                mk = 0
                for bit, dom in enumerate(self.clk_domains):
                    div, ph = d.clocks[dom]
                    if i % div == ph: mk |= 1 << bit
                self._masks.append(mk)
        self.lib.rtl_reset(self._saddr)
        self.reset_state = self._sbuf.raw
        self.cells = len(self.comp.cells)
        self._wide = any(w > 64 for _, w in self.comp.obs_slot) or any(p and p[1] > 64 for p in self.comp.sig_port)
        self.in_widths = [len(d.inputs[n]) for n in self.in_names]

    # -- low level
    def _load_inputs(self, vec):
        ib = self._ibuf
        for v, sp in zip(vec, self.comp.sig_port):
            if sp is None: continue
            slot, w = sp
            if w > 64:
                ib[slot] = v & 0xFFFFFFFFFFFFFFFF; ib[slot + 1] = (v >> 64) & 0xFFFFFFFFFFFFFFFF
            else:
                ib[slot] = v & 0xFFFFFFFFFFFFFFFF

    def _read_obs(self):
        ob = self._obuf
        if not self._wide:
            return self.Obs._make(ob[:len(self.obs_names)]) if self.n_obs == len(self.obs_names) else self.Obs._make(ob[s] for s, _ in self.comp.obs_slot)
        out = []
        for slot, w in self.comp.obs_slot:
            out.append(ob[slot] | (ob[slot + 1] << 64) if w > 64 else ob[slot])
        return self.Obs._make(out)

    def vec(self, **kw):
        v = list(self.default_vec)
        ii = self.in_index
        for k, x in kw.items():
            v[ii[k]] = int(x)
        return tuple(v)

    def step_vec(self, state, vec, clkmask=None):
        """one clock: returns (next state bytes, obs during this cycle)"""
        ctypes.memmove(self._saddr, state, self.nstate)
        self._load_inputs(vec)
        self.lib.rtl_step(self._saddr, self._iaddr, self._oaddr, self.allclk if clkmask is None else clkmask)
        return self._sbuf.raw, self._read_obs()

    def peek_vec(self, state, vec):
        ctypes.memmove(self._saddr, state, self.nstate)
        self._load_inputs(vec)
        self.lib.rtl_step(self._saddr, self._iaddr, self._oaddr, 0)
        return self._read_obs()

    def hold_vec(self, state, vec, n, clkmask=None):
        """hold inputs for up to n cycles, stopping after the first cycle whose obs differ from the first cycle's.
        returns (state, cycles_run, obs of last cycle run)"""
        ctypes.memmove(self._saddr, state, self.nstate)
        self._load_inputs(vec)
        k = self.lib.rtl_run_hold(self._saddr, self._iaddr, int(n), self._oaddr, self.allclk if clkmask is None else clkmask)
        return self._sbuf.raw, k, self._read_obs()


class Cursor:
    """A position in one execution of the C model.  step() = one clock cycle; the returned observation is what
    the outputs show *during* that cycle (combinationally, with the inputs given), before the clock edge."""
    __slots__ = ("model", "state", "log", "cycles")

    def __init__(self, model, state=None, log=None):
        self.model = model
        self.state = model.reset_state if state is None else state
        self.log = log            # None, or list collecting (vec, obs) per cycle
        self.cycles = 0

    def step(self, **kw):
        m = self.model
        v = m.vec(**kw) if kw else tuple(m.default_vec)
        if m.clocks:
            mk = m._masks[self.cycles % m._lcm]
            self.state, o = m.step_vec(self.state, v, mk)
            self.cycles += 1
            if self.log is not None: self.log.append((v, tuple(o), mk))
            return o
        self.state, o = m.step_vec(self.state, v)
        self.cycles += 1
        if self.log is not None: self.log.append((v, tuple(o)))
        return o

    def step_vec(self, v, clkmask=None):
        self.state, o = self.model.step_vec(self.state, v, clkmask)
        self.cycles += 1
        if self.log is not None: self.log.append((v, tuple(o)) if clkmask is None else (v, tuple(o), clkmask))
        return o

    def peek(self, **kw):
        m = self.model
        return m.peek_vec(self.state, m.vec(**kw) if kw else tuple(m.default_vec))

    def hold(self, n, **kw):
        """hold inputs up to n cycles; stops early after a cycle whose obs differ from the first one's.
        Returns (cycles_run, obs_first, obs_last)."""
        m = self.model
        v = m.vec(**kw) if kw else tuple(m.default_vec)
        first = m.peek_vec(self.state, v)
        self.state, k, last = m.hold_vec(self.state, v, n)
        self.cycles += k
        if self.log is not None:
            # log compactly: first cycle obs, then run-length; pysim replay checks first and last
            self.log.append((v, tuple(first), ("hold", k, tuple(last))))
        return k, first, last

    def fork(self):
        c = Cursor(self.model, self.state, None)
        c.cycles = self.cycles
        return c
