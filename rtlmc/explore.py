# Explicit-state breadth-first exploration of (DUT state, environment/monitor state) over the real netlist.
import time, collections, random
from .model import Model, Cursor, Violation, MachineryError
from . import pysim


class Spec:
    """Base class for what a harness' make(cfg) returns.  Override build/env0/actions/apply."""
    max_depth = 10 ** 9
    max_states = 2_000_000
    time_budget = 600.0
    n_validate = 6            # explored paths replayed in amaranth.sim per configuration
    validate_max_cycles = 6000

    def __init__(self, cfg, tier):
        self.cfg, self.tier = cfg, tier
        self.cover = collections.Counter()
        self.outcomes = set()

    def build(self): raise NotImplementedError
    def env0(self): return ()
    def actions(self, env): raise NotImplementedError
    def apply(self, cur, env, action): raise NotImplementedError
    def canon(self, env): return env
    def label(self, action): return action
    def prologue(self, cur):
        """cycles run once from reset before exploration starts (returns env0 or None)"""
        return None
    def goals(self):
        """names of cover goals that must have been hit (vacuity guard)"""
        return []
    def assumptions(self): return []


def run_path(model, spec, path, log=None):
    """Re-execute an action path from reset.  Returns (cursor, env).  Violation propagates."""
    cur = Cursor(model, None, log)
    env = spec.prologue(cur)
    if env is None: env = spec.env0()
    for a in path:
        env = spec.apply(cur, env, a)
    return cur, env


class Result(dict):
    pass


def bfs(model, spec, seed=0, deadline=None):
    t0 = time.time()
    cur0 = Cursor(model)
    env = spec.prologue(cur0)
    if env is None: env = spec.env0()
    parents = [-1]; acts = [None]; depths = [0]
    states = [cur0.state]; envs = [env]
    index = {(cur0.state, spec.canon(env)): 0}
    frontier = collections.deque([0])
    transitions = 0
    violations = {}       # rule -> dict(first path, count)
    caps = []
    maxdepth = 0
    capped_depth = capped_states = capped_time = False
    cyc0 = cur0.cycles
    expanded = 0
    while frontier:
        i = frontier.popleft()
        d = depths[i]
        if d >= spec.max_depth:
            capped_depth = True
            continue
        st, en = states[i], envs[i]
        for a in spec.actions(en):
            cur = Cursor(model, st)
            transitions += 1
            try:
                en2 = spec.apply(cur, en, a)
            except Violation as v:
                r = violations.get(v.rule)
                if r is None:
                    violations[v.rule] = dict(rule=v.rule, detail=v.detail, node=i, action=a, count=1, depth=d + 1)
                else:
                    r["count"] += 1
                continue
            if en2 is None:      # harness pruned this transition (environment assumption not met)
                continue
            key = (cur.state, spec.canon(en2))
            if key not in index:
                j = len(parents)
                index[key] = j
                parents.append(i); acts.append(a); depths.append(d + 1)
                states.append(cur.state); envs.append(en2)
                frontier.append(j)
                if d + 1 > maxdepth: maxdepth = d + 1
        if len(parents) >= spec.max_states:
            capped_states = True; break
        expanded += 1
        if deadline and (expanded & 0x3F) == 0 and time.time() > deadline:
            capped_time = True; break
    if capped_depth: caps.append(f"depth bound {spec.max_depth} reached (all states at smaller depth fully expanded)")
    if capped_states: caps.append(f"state cap {spec.max_states} hit; {len(frontier)} frontier states unexpanded")
    if capped_time: caps.append(f"time budget hit; {len(frontier)} frontier states unexpanded")

    def path_to(i):
        p = []
        while i > 0:
            p.append(acts[i]); i = parents[i]
        return p[::-1]

    res = Result(states=len(parents), transitions=transitions, depth=maxdepth,
                 exhaustive=not (capped_depth or capped_states or capped_time), caps=caps,
                 wall_s=time.time() - t0)
    res["violations"] = []
    for r in violations.values():
        res["violations"].append(dict(rule=r["rule"], detail=r["detail"], count=r["count"],
                                      path=path_to(r["node"]) + [r["action"]]))
    # choose explored paths for validation against amaranth.sim: deepest/last discovered + seed-rotated picks
    n = len(parents)
    rnd = random.Random(seed)
    picks = []
    if n > 1:
        picks.append(n - 1)
        for _ in range(spec.n_validate * 3):
            picks.append(rnd.randrange(1, n))
    seen = set(); sel = []
    for p in picks:
        if p not in seen:
            seen.add(p); sel.append(p)
        if len(sel) >= spec.n_validate: break
    res["validate_paths"] = [path_to(p) for p in sel]
    res["sample_paths"] = [path_to(p) for p in sel[:3]]
    return res


def validate(model, spec, paths, max_cycles=None):
    """Replay explored paths in amaranth.sim.  Returns (n_traces, n_cycles).  Raises MachineryError on divergence,
    and on non-deterministic re-execution."""
    nt = nc = 0
    for p in paths:
        log = []
        try:
            run_path(model, spec, p, log)
        except Violation:
            pass          # the log up to the violation is still a valid trace to compare
        log2 = []
        try:
            run_path(model, spec, p, log2)
        except Violation:
            pass
        if log != log2:
            raise MachineryError("re-executing the same action path gave a different trace (uncaptured nondeterminism)")
        nc += pysim.replay(model, log, max_cycles or spec.validate_max_cycles)
        nt += 1
    return nt, nc


def run_spec(spec, seed=0):
    """Generic per-configuration driver used by harnesses: compile, explore, validate. Returns a JSON-able dict."""
    t0 = time.time()
    model = Model(spec.build)
    deadline = time.time() + spec.time_budget      # the budget covers exploration only, not elaboration/compilation
    res = bfs(model, spec, seed, deadline)
    # confirm violations deterministically and validate their traces too
    vpaths = [v["path"] for v in res["violations"]]
    for v in res["violations"]:
        try:
            run_path(model, spec, v["path"])
            raise MachineryError(f"violation {v['rule']} did not reproduce when its path was re-executed")
        except Violation as e:
            if e.rule != v["rule"]:
                raise MachineryError(f"violation changed on re-execution: {v['rule']} vs {e.rule}")
    nt, nc = validate(model, spec, res["validate_paths"] + vpaths[:4])
    unmet = [g for g in spec.goals() if not spec.cover.get(g)]
    out = dict(config=spec.cfg, states=res["states"], transitions=res["transitions"], depth=res["depth"],
               exhaustive=res["exhaustive"], caps=res["caps"], violations=res["violations"],
               traces_validated=nt, cycles_validated=nc,
               samples=[[spec.label(a) for a in p] for p in res["sample_paths"]],
               cover=dict(spec.cover), unmet_goals=unmet, outcomes=len(spec.outcomes),
               cells=model.cells, state_bytes=model.nstate, assumptions=spec.assumptions(),
               wall_s=round(time.time() - t0, 2))
    return out
