# Reference encoders/decoders written from the USB 2.0 specification (chapter 8), deliberately naive/bit-serial.
OUT, IN, SOF, SETUP = 0x1, 0x9, 0x5, 0xD
DATA0, DATA1, DATA2, MDATA = 0x3, 0xB, 0x7, 0xF
ACK, NAK, STALL, NYET = 0x2, 0xA, 0xE, 0x6
PING = 0x4
PIDNAME = {0x1: "OUT", 0x9: "IN", 0x5: "SOF", 0xD: "SETUP", 0x3: "DATA0", 0xB: "DATA1", 0x7: "DATA2", 0xF: "MDATA",
           0x2: "ACK", 0xA: "NAK", 0xE: "STALL", 0x6: "NYET", 0x4: "PING"}
DATA_PIDS = (DATA0, DATA1, DATA2, MDATA)
HANDSHAKE_PIDS = (ACK, NAK, STALL, NYET)


def pid_byte(p):
    return (p & 0xF) | ((~p & 0xF) << 4)


def pid_ok(b):
    return (b & 0xF) == ((~b >> 4) & 0xF)


def _crc_serial(bits, poly, n):
    """USB CRC: register preset to ones, data fed in transmission order, remainder inverted, sent MSB first."""
    reg = (1 << n) - 1
    for b in bits:
        top = (reg >> (n - 1)) & 1
        reg = (reg << 1) & ((1 << n) - 1)
        if b ^ top: reg ^= poly
    reg ^= (1 << n) - 1
    # field as it appears in little-endian (LSB-first on the wire) packing: first transmitted bit (MSB of reg) -> bit 0
    out = 0
    for i in range(n):
        if (reg >> (n - 1 - i)) & 1: out |= 1 << i
    return out


def crc5(value11):
    return _crc_serial([(value11 >> i) & 1 for i in range(11)], 0x05, 5)


def crc16(data):
    bits = []
    for byte in data:
        bits += [(byte >> i) & 1 for i in range(8)]
    return _crc_serial(bits, 0x8005, 16)


def token(pid, addr, ep):
    v = (addr & 0x7F) | ((ep & 0xF) << 7)
    v |= crc5(v) << 11
    return (pid_byte(pid), v & 0xFF, v >> 8)


def sof(frame):
    v = frame & 0x7FF
    v |= crc5(v) << 11
    return (pid_byte(SOF), v & 0xFF, v >> 8)


def data_packet(pid, payload, corrupt=False):
    c = crc16(payload)
    if corrupt: c ^= 0x0100
    return (pid_byte(pid),) + tuple(payload) + (c & 0xFF, c >> 8)


def handshake(pid):
    return (pid_byte(pid),)


def classify_device_packet(pkt):
    """What a host sees in a packet sent by the device: ('hs', pid) | ('data', pid, payload) | ('bad', reason)."""
    if not pkt: return ("bad", "empty")
    b = pkt[0]
    if not pid_ok(b): return ("bad", "pid-check-nibble")
    p = b & 0xF
    if p in HANDSHAKE_PIDS:
        return ("hs", p) if len(pkt) == 1 else ("bad", "handshake-with-extra-bytes")
    if p in DATA_PIDS:
        if len(pkt) < 3: return ("bad", "data-packet-shorter-than-crc")
        payload = tuple(pkt[1:-2])
        c = crc16(payload)
        if (pkt[-2], pkt[-1]) != (c & 0xFF, c >> 8): return ("bad", "data-crc16")
        return ("data", p, payload)
    return ("bad", "device-sent-non-device-pid")


def setup_bytes(bmRequestType, bRequest, wValue, wIndex, wLength):
    return (bmRequestType & 0xFF, bRequest & 0xFF, wValue & 0xFF, (wValue >> 8) & 0xFF, wIndex & 0xFF, (wIndex >> 8) & 0xFF,
            wLength & 0xFF, (wLength >> 8) & 0xFF)
