#!/bin/sh
# tools/try_patch.sh <patch> <Cxx> [tier] [notest]: apply a patch to /repo, run the repo tests and one check, undo the patch.
P=$(realpath "$1"); ID=$2; TIER=${3:-quick}
git -C /repo diff --quiet || { echo "/repo working tree not clean"; exit 3; }
git -C /repo apply "$P" || exit 3
if [ "$4" != "notest" ]; then (cd /repo && /venv/bin/python -m pytest -q -p no:cacheprovider tests 2>&1 | grep -E "passed|failed" | tail -1); fi
(cd /verif && ./check $ID --tier $TIER > /tmp/try_patch.out 2>&1; echo "check rc=$?"; cut -c1-400 /tmp/try_patch.out | tail -8)
git -C /repo checkout -- . 
