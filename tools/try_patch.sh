#!/bin/sh
# tools/try_patch.sh <patch> <Cxx> [tier] [notest]
# Applies a patch to a scratch git worktree of /repo (never to /repo itself), optionally runs the repository's tests there,
# runs one check against it (LUNA_VERIF_REPO), prints the verdict lines, removes the worktree.
P=$(realpath "$1"); ID=$2; TIER=${3:-quick}
WT=/tmp/trypatch_$$
git -C /repo worktree add -q --detach "$WT" HEAD || exit 3
if ! git -C "$WT" apply "$P"; then git -C /repo worktree remove --force "$WT"; echo "patch does not apply"; exit 3; fi
if [ "$4" != "notest" ]; then (cd "$WT" && /venv/bin/python -m pytest -q -p no:cacheprovider tests 2>&1 | grep -E "passed|failed" | tail -1); fi
(cd /verif && LUNA_VERIF_REPO="$WT" ./check $ID --tier $TIER > /tmp/try_patch_$$.out 2>&1; echo "check rc=$?"; grep -E "VIOLATION|KNOWN-FINDING|MACHINERY|violated rule" /tmp/try_patch_$$.out | cut -c1-300 | head -6; rm -f /tmp/try_patch_$$.out)
git -C /repo worktree remove --force "$WT"
