#!/venv/bin/python
# Regenerates MANIFEST.json from the harness modules present (each carries its own level text).
import json, glob, os, sys, importlib
V = os.path.dirname(os.path.dirname(os.path.abspath(__file__)))
sys.path.insert(0, V)
props = [json.loads(l) for l in open(os.path.join(V, "properties.jsonl"))]
checks, na = [], []
mods = {}
for f in sorted(glob.glob(os.path.join(V, "harness", "c[0-9]*_*.py"))):
    name = os.path.basename(f)[:-3]
    mods[name.split("_")[0].upper()] = name
DEFAULT_NOTE = ("Trusted base: Amaranth 0.5.9 elaboration (build_netlist) and amaranth.sim, our netlist->C compiler (self-tested per cell kind and "
                "cross-checked against amaranth.sim on explored traces every run), gcc, and the Python oracle/environment of the harness. "
                "Decided only for the configurations, alphabets and bounds listed in the evidence.")
claimed = set(open(os.path.join(V, 'tools', 'claimed.txt')).read().split())
def header_comment(modname):
    lines = []
    for l in open(os.path.join(V, "harness", modname + ".py")):
        if l.startswith("#"): lines.append(l.lstrip("#").strip())
        elif lines: break
    t = " ".join(x for x in lines if x)
    return (t[:900] + " ...") if len(t) > 900 else t
for p in props:
    pid = p["id"]
    if pid in mods and pid in claimed:
        m = importlib.import_module("harness." + mods[pid])
        if getattr(m, "DISABLED", None):
            na.append(dict(property_id=pid, reason=m.DISABLED)); continue
        checks.append(dict(
            property_id=pid,
            quick_cmd=f"./check {pid} --tier quick",
            thorough_cmd=f"./check {pid} --tier thorough",
            evidence_file=f"/verif/evidence/{pid}.json",
            replay_cmd_template=f"./check {pid} --replay {{path}}",
            engine="rtlmc",
            level_claimed=dict(category="model_checking", text=getattr(m, "LEVEL_TEXT", "").strip() or
                               ("Exhaustive breadth-first exploration (within the bounds reported in the evidence) of the real elaborated netlist of the class under test, closed with a nondeterministic environment; the oracle is evaluated on every transition and explored traces are replayed in amaranth.sim. Harness summary: " + header_comment(mods[pid])),
                               design_ref=getattr(m, "DESIGN_REF", "DESIGN.md §5 " + pid)),
            level_note=getattr(m, "LEVEL_NOTE", DEFAULT_NOTE),
            technique=getattr(m, "TECHNIQUE", "explicit-state model checking (BFS with state hashing) of the implementation's netlist; traces replayed in amaranth.sim")))
    else:
        na.append(dict(property_id=pid, reason="not claimed yet: no harness has been built for this property (it is a finite-state property the engine can address; see DESIGN.md §11 staging)"))
man = dict(version=1,
           setup_cmd="cd /verif && mkdir -p build evidence replays && /venv/bin/python -m selftest.run",
           hooks=dict(guard="GREATSCOTTGADGETS_LUNA_VERIF", enable="no hooks are needed: checks elaborate the unmodified classes from /repo", 
                      baseline_off_cmd="cd /repo && /venv/bin/python -m pytest -ra -q -p no:cacheprovider --timeout=900 --continue-on-collection-errors",
                      source_commits=[], add_only=True),
           engines=[dict(name="rtlmc", path="/verif/rtlmc", serves_properties=[c["property_id"] for c in checks],
                         kind_free_text="Amaranth netlist -> C compiler + explicit-state BFS explorer in Python + amaranth.sim trace conformance replay")],
           checks=checks, not_applicable=na,
           notes="See DESIGN.md. ./check <id> --tier quick|thorough; exit 0 held, 1 VIOLATION, 2 machinery error.")
json.dump(man, open(os.path.join(V, "MANIFEST.json"), "w"), indent=1)
print(f"claimed {len(checks)} / {len(props)}")
