#!/venv/bin/python
# Rewrites the block between <!-- STATUS-BEGIN --> and <!-- STATUS-END --> in DESIGN.md from evidence/, known_findings.txt, seeded/.
import json, glob, os, re
V = os.path.dirname(os.path.dirname(os.path.abspath(__file__)))
props = [json.loads(l) for l in open(os.path.join(V, "properties.jsonl"))]
claimed = set(open(os.path.join(V, "tools", "claimed.txt")).read().split())
kf = open(os.path.join(V, "known_findings.txt")).read().splitlines()
seeds = {}
for f in glob.glob(os.path.join(V, "seeded", "*", "meta.json")):
    m = json.load(open(f)); seeds.setdefault(m["property"], []).append(m)
rows = ["| id | harness | quick: configs / states / transitions / exhaustive | fixed | known | seeded caught |", "|---|---|---|---|---|---|"]
for p in props:
    pid = p["id"]
    h = glob.glob(os.path.join(V, "harness", pid.lower() + "_*.py"))
    ev = os.path.join(V, "evidence", pid + ".json")
    cov = "-"
    if os.path.exists(ev):
        e = json.load(open(ev)); c = e["coverage"]
        cov = f"{c.get('configurations','?')} / {c.get('states')} / {c.get('transitions')} / {'yes' if c.get('exhaustive') else 'bounded'}" + ("" if e.get("tier") == "quick" else " (thorough run)")
    nf = sum(1 for l in kf if l.startswith("fixed:") and f"property={pid} " in l)
    nk = sum(1 for l in kf if l.startswith("known:") and f"property={pid} " in l)
    s = seeds.get(pid, [])
    sd = sum(1 for m in s if m.get("check_quick", {}).get("detected") or (m.get("check_thorough") or {}).get("detected") or m.get("also_caught_by"))
    rows.append(f"| {pid}{'' if pid in claimed else ' (unclaimed)'} | {os.path.basename(h[0]) if h else '-'} | {cov} | {nf} | {nk} | {sd}/{len(s)} |")
block = "\n".join(rows)
p = os.path.join(V, "DESIGN.md"); s = open(p).read()
s = re.sub(r"<!-- STATUS-BEGIN -->.*<!-- STATUS-END -->", "<!-- STATUS-BEGIN -->\n" + block + "\n<!-- STATUS-END -->", s, flags=re.S)
open(p, "w").write(s)
print("ok")
