#!/bin/sh
# re-evaluate every benign change and every seed whose patch applies to the current /repo HEAD, with the final harnesses
cd /verif
mkdir -p /tmp/re_benign /tmp/re_seed
ls /verif/benign | grep -v RESULTS | xargs -P 5 -I{} sh -c 'tools/eval_benign.py /tmp/benign_out/{} > /tmp/re_benign/{}.json 2>/dev/null'
for s in $(ls /verif/seeded | grep -v RESULTS); do
  src=/tmp/seed_out/$s; [ -d /tmp/seed_rebased/$s ] && src=/tmp/seed_rebased/$s
  git -C /repo apply --check $src/patch.diff 2>/dev/null && echo $src
done > /tmp/re_seed_list.txt
wc -l < /tmp/re_seed_list.txt
cat /tmp/re_seed_list.txt | xargs -P 5 -I{} sh -c 'tools/eval_seed.py {} > /tmp/re_seed/$(basename {}).json 2>/dev/null'
echo done
