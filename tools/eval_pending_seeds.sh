#!/bin/sh
cd /verif
for s in $(ls /tmp/seed_out | grep -E "_[567]$"); do [ -f /tmp/seed_out/$s/meta.json ] && [ -f /tmp/seed_out/$s/patch.diff ] && [ -f /tmp/seed_out/$s/demo_test.py ] && [ ! -f /tmp/seed_eval/$s.json ] && [ ! -f /tmp/seed_eval/$s.lock ] && echo $s; done > /tmp/pending_$$.txt
for s in $(cat /tmp/pending_$$.txt); do touch /tmp/seed_eval/$s.lock; done
cat /tmp/pending_$$.txt | xargs -P 4 -I{} sh -c 'tools/eval_seed.py /tmp/seed_out/{} > /tmp/seed_eval/{}.json 2>/tmp/seed_eval/{}.err'
wc -l < /tmp/pending_$$.txt; rm -f /tmp/pending_$$.txt
