#!/bin/sh
# tools/run_all.sh [tier]: run every claimed check once; print rc and wall per check.
TIER=${1:-quick}
cd "$(dirname "$0")/.."
for id in $(sort tools/claimed.txt); do
  s=$(date +%s)
  ./check $id --tier $TIER > /tmp/run_all_$id.out 2>&1; rc=$?
  e=$(date +%s)
  echo "$id rc=$rc wall=$((e-s))s $(grep -c '^VIOLATION' /tmp/run_all_$id.out) violations, $(grep -c '^KNOWN-FINDING' /tmp/run_all_$id.out) known"
  [ $rc -ne 0 ] && grep -E "VIOLATION|MACHINERY" /tmp/run_all_$id.out | head -3 | cut -c1-250
  rm -f /tmp/run_all_$id.out
done
