#!/bin/sh
cd /verif; mkdir -p /tmp/benign_eval
for s in $(ls /tmp/benign_out); do [ -f /tmp/benign_out/$s/meta.json ] && [ -f /tmp/benign_out/$s/patch.diff ] && [ ! -f /tmp/benign_eval/$s.json ] && [ ! -f /tmp/benign_eval/$s.lock ] && echo $s; done > /tmp/bpending_$$.txt
for s in $(cat /tmp/bpending_$$.txt); do touch /tmp/benign_eval/$s.lock; done
cat /tmp/bpending_$$.txt | xargs -P 4 -I{} sh -c 'tools/eval_benign.py /tmp/benign_out/{} > /tmp/benign_eval/{}.json 2>/tmp/benign_eval/{}.err'
wc -l < /tmp/bpending_$$.txt; rm -f /tmp/bpending_$$.txt
