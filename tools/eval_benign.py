#!/venv/bin/python
# tools/eval_benign.py <dir>: apply a property-preserving change in a scratch worktree, confirm the repository tests pass,
# run the property's quick check against it: any VIOLATION or machinery error is a false alarm / fragility to triage.
import sys, os, json, subprocess, tempfile, time
V = os.path.dirname(os.path.dirname(os.path.abspath(__file__)))
src = os.path.abspath(sys.argv[1]); meta = json.load(open(os.path.join(src, "meta.json"))); pid = meta["property"]
wt = tempfile.mkdtemp(prefix="benigneval_", dir="/tmp"); os.rmdir(wt)
def sh(cmd, cwd=None, env=None):
    p = subprocess.run(cmd, shell=True, cwd=cwd, env=env, capture_output=True, text=True); return p.returncode, p.stdout + p.stderr
rec = dict(meta)
try:
    assert sh(f"git -C /repo worktree add -q --detach {wt} HEAD")[0] == 0
    rca, _ = sh(f"git apply {os.path.join(src, 'patch.diff')}", cwd=wt); rec["patch_applies"] = rca == 0
    if rca == 0:
        _, outt = sh("/venv/bin/python -m pytest -q -p no:cacheprovider tests 2>&1 | grep -E 'passed|failed' | tail -1", cwd=wt)
        rec["repo_tests_with_change"] = outt.strip()
        t0 = time.time()
        rcc, outc = sh(f"./check {pid} --tier quick", cwd=V, env=dict(os.environ, LUNA_VERIF_REPO=wt))
        rec["check_quick"] = dict(rc=rcc, wall_s=round(time.time() - t0), lines=[l[:400] for l in outc.splitlines() if "violated rule" in l or l.startswith("VIOLATION") or "MACHINERY" in l][:6])
finally:
    sh(f"git -C /repo worktree remove --force {wt}")
print(json.dumps(rec, indent=1))
