#!/venv/bin/python
# tools/eval_seed.py <seed_dir> [--keep-as NAME] : confirm a seeded change (tests pass with it, demo fails with it and passes
# without it) in a scratch worktree, run the property's quick (and optionally thorough) check against it, and store it
# under /verif/seeded/<NAME>/ with the verdict in meta.json.
import sys, os, json, subprocess, shutil, tempfile, time
V = os.path.dirname(os.path.dirname(os.path.abspath(__file__)))
src = os.path.abspath(sys.argv[1])
name = os.path.basename(src.rstrip("/"))
meta = json.load(open(os.path.join(src, "meta.json")))
pid = meta["property"]
tiers = ["quick"] + (["thorough"] if "--thorough" in sys.argv else [])
wt = tempfile.mkdtemp(prefix="seedeval_", dir="/tmp"); os.rmdir(wt)
def sh(cmd, cwd=None, env=None, timeout=3600):
    p = subprocess.run(cmd, shell=True, cwd=cwd, env=env, capture_output=True, text=True, timeout=timeout)
    return p.returncode, (p.stdout + p.stderr)
rec = dict(meta)
rec["evaluated_at_repo_head"] = subprocess.run("git -C /repo rev-parse --short HEAD", shell=True, capture_output=True, text=True).stdout.strip()
try:
    assert sh(f"git -C /repo worktree add -q --detach {wt} HEAD")[0] == 0
    demo = os.path.join(src, "demo_test.py")
    shutil.copy(demo, os.path.join(wt, "demo_seed_test.py"))
    rc0, out0 = sh("/venv/bin/python -m pytest -q -p no:cacheprovider demo_seed_test.py", cwd=wt)
    rec["demo_without_change"] = "passes" if rc0 == 0 else "FAILS"
    rca, outa = sh(f"git apply {os.path.join(src, 'patch.diff')}", cwd=wt)
    rec["patch_applies"] = rca == 0
    if rca == 0:
        rc1, out1 = sh("/venv/bin/python -m pytest -q -p no:cacheprovider demo_seed_test.py", cwd=wt)
        rec["demo_with_change"] = "fails" if rc1 != 0 else "PASSES"
        rct, outt = sh("/venv/bin/python -m pytest -q -p no:cacheprovider tests 2>&1 | grep -E 'passed|failed' | tail -1", cwd=wt)
        rec["repo_tests_with_change"] = outt.strip()
        env = dict(os.environ, LUNA_VERIF_REPO=wt)
        for tier in tiers:
            t0 = time.time()
            rcc, outc = sh(f"./check {pid} --tier {tier}", cwd=V, env=env)
            lines = [l[:300] for l in outc.splitlines() if "violated rule" in l or l.startswith("VIOLATION") or "MACHINERY" in l]
            rec[f"check_{tier}"] = dict(rc=rcc, detected=(rcc == 1), wall_s=round(time.time() - t0), lines=lines[:6])
finally:
    sh(f"git -C /repo worktree remove --force {wt}")
valid = rec.get("patch_applies") and rec.get("demo_without_change") == "passes" and rec.get("demo_with_change") == "fails" and "93 passed" in rec.get("repo_tests_with_change", "")
rec["confirmed"] = bool(valid)
print(json.dumps(rec, indent=1))
if valid:
    dst = os.path.join(V, "seeded", name)
    os.makedirs(dst, exist_ok=True)
    for f in os.listdir(src):
        if f != "meta.json": shutil.copy(os.path.join(src, f), dst)
    json.dump(rec, open(os.path.join(dst, "meta.json"), "w"), indent=1)
