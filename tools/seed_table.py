#!/venv/bin/python
# Regenerates seeded/RESULTS.md from seeded/*/meta.json
import json, glob, os
V = os.path.dirname(os.path.dirname(os.path.abspath(__file__)))
rows = []
for f in sorted(glob.glob(os.path.join(V, "seeded", "*", "meta.json"))):
    m = json.load(open(f)); name = os.path.basename(os.path.dirname(f))
    q = m.get("check_quick", {}); t = m.get("check_thorough")
    rule = ""
    for l in q.get("lines", []):
        if "violated rule:" in l: rule = l.split("violated rule:")[1].split(" detail=")[0].strip(); break
    det = "quick" if q.get("detected") else ("thorough" if t and t.get("detected") else "NOT DETECTED")
    if det == "NOT DETECTED" and m.get("also_caught_by"):
        a = m["also_caught_by"]; det = f"{a['property']} {a['tier']}"; rule = a["rule"]
    if m.get("superseded") and det == "NOT DETECTED": det = "n/a (superseded, see meta.json)"
    rows.append((name, m["property"], m.get("summary", "").replace("|", "/"), m.get("needs", "").replace("|", "/"), det, rule))
with open(os.path.join(V, "seeded", "RESULTS.md"), "w") as f:
    f.write("# Seeded property-breaking changes and which check catches them\n\n"
            "Each change was written by an independent sub-agent that saw only the property text and a scratch worktree; it keeps the repository's 93 tests passing,\n"
            "comes with a demonstration test (fails with the change, passes without) and was confirmed and run against the property's check by tools/eval_seed.py.\n\n"
            "| seed | property | change | needs | caught by | first rule |\n|---|---|---|---|---|---|\n")
    for r in rows: f.write("| " + " | ".join(r) + " |\n")
    sup = sum(1 for r in rows if r[4].startswith("n/a"))
    n = len(rows) - sup; d = sum(1 for r in rows if r[4] != "NOT DETECTED" and not r[4].startswith("n/a"))
    cross = sum(1 for r in rows if r[4] not in ("quick", "thorough", "NOT DETECTED") and not r[4].startswith("n/a"))
    f.write(f"\n{d} of {n} applicable seeds detected ({cross} of them by a sibling property's check, see also_caught_by in meta.json); {sup} superseded.\n")
print(len(rows), "seeds")
